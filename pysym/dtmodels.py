"""datetime / timedelta on symbolic values: exact integer microseconds (LIA).

SymTD(us)  : timedelta of `us` microseconds (int-like symbolic or int)
SymDT(us)  : naive datetime, `us` microseconds since 0001-01-01T00:00:00
Either may instead carry `src`, an arbitrary symbolic float of seconds that could not be shown
integral: such values are opaque (any inspection -> Unsupported), they only flow through.
"""
import ast
import datetime as _dt

import z3

from .values import (SymDT, SymTD, LazyStr, Sym, SymBool, SymBV, SymFloat, SymInt, SymStr, Unsupported, deep_sym, is_sym, mkbool, mkint,
                     zint)

US = 1000000
DAY_US = 86400 * US
MIN_US = 0
MAX_US = (_dt.datetime.max - _dt.datetime.min) // _dt.timedelta(microseconds=1)
TD_MAX_US = 999999999 * DAY_US + DAY_US - 1


def td_us(x):
    """exact microseconds of a concrete timedelta"""
    return (x.days * 86400 + x.seconds) * US + x.microseconds


def dt_us(x):
    return td_us(x - _dt.datetime.min)


def to_td(eng, x):
    if isinstance(x, SymTD):
        return x
    if isinstance(x, _dt.timedelta):
        return SymTD(td_us(x))
    raise TypeError("unsupported operand: timedelta expected")


def to_dt(eng, x):
    if isinstance(x, SymDT):
        return x
    if isinstance(x, _dt.datetime):
        if x.tzinfo is not None:
            raise Unsupported("aware datetime")
        return SymDT(dt_us(x))
    raise TypeError("unsupported operand: datetime expected")


def _need(v, what):
    if v.us is None:
        raise Unsupported(f"inspection of {what} built from a non-integral symbolic float")
    return v.us


def check_td_range(eng, us):
    if is_sym(us):
        if eng.truth(eng.or_(eng.cmp("Gt", us, TD_MAX_US), eng.cmp("Lt", us, -999999999 * DAY_US))):
            raise OverflowError("days out of range for timedelta")
    elif not -999999999 * DAY_US <= us <= TD_MAX_US:
        raise OverflowError("days out of range for timedelta")


def check_dt_range(eng, us):
    if is_sym(us):
        if eng.truth(eng.or_(eng.cmp("Gt", us, MAX_US), eng.cmp("Lt", us, 0))):
            raise OverflowError("date value out of range")
    elif not 0 <= us <= MAX_US:
        raise OverflowError("date value out of range")


def m_timedelta(eng, days=0, seconds=0, microseconds=0, milliseconds=0, minutes=0, hours=0, weeks=0):
    parts = [(days, DAY_US), (seconds, US), (microseconds, 1), (milliseconds, 1000), (minutes, 60 * US),
             (hours, 3600 * US), (weeks, 7 * DAY_US)]
    if not any(is_sym(p[0]) for p in parts):
        return _dt.timedelta(days, seconds, microseconds, milliseconds, minutes, hours, weeks)
    total = 0
    for v, k in parts:
        if isinstance(v, SymFloat):
            if v.ival is not None:
                v = v.ival
            else:
                if any(is_sym(p[0]) for p in parts if p[0] is not v) or any(
                        (not is_sym(p[0])) and p[0] != 0 for p in parts):
                    raise Unsupported("timedelta from several fields with a non-integral symbolic float")
                if v.t is None:
                    # CPython's accum()/delta_new: whole part exact, fractional part scaled in double arithmetic and
                    # rounded half-to-even:  us = trunc(x)*k + round_half_even(RN(k * (x - trunc(x))))
                    tv = eng.as_tracked(v)
                    whole = eng.real_to_int(tv.real, "trunc")
                    frac = eng.frac_part(tv, whole)                  # modf is exact
                    y = eng.real_binop(ast.Mult, frac, k)
                    us = eng.op("Add", eng.op("Mult", whole, k), m_round_float(eng, y))
                    check_td_range(eng, us)
                    return SymTD(us)
                # nan / inf raise natively
                t = eng.to_fp(v)
                if eng.decide(z3.fpIsNaN(t)):
                    raise ValueError("cannot convert float NaN to integer")
                if eng.decide(z3.fpIsInf(t)):
                    raise OverflowError("cannot convert float infinity to integer")
                lim = z3.FPVal(float(86400 * 999999999), t.sort())
                if eng.decide(z3.Or(z3.fpGT(t, lim), z3.fpLT(t, z3.fpNeg(lim)))):
                    raise OverflowError("days out of range for timedelta")
                return SymTD(src=(v, k))
        elif isinstance(v, float):
            if not v.is_integer():
                raise Unsupported("timedelta from non-integral concrete float mixed with symbolic")
            v = int(v)
        elif v is None or isinstance(v, (str, SymStr)):
            raise TypeError("unsupported type for timedelta component")
        total = eng.op("Add", total, eng.op("Mult", v, k))
    check_td_range(eng, total)
    return SymTD(total)


def m_round_float(eng, y):
    if isinstance(y, float):
        return round(y)
    return eng.real_to_int(eng.real_of(y), "round")


def binop(eng, op, a, b):
    t = type(op)
    if isinstance(a, (SymDT, _dt.datetime)) and isinstance(b, (SymTD, _dt.timedelta)) and t in (ast.Add, ast.Sub):
        a, b = to_dt(eng, a), to_td(eng, b)
        if a.us is None or b.us is None:
            if b.src is not None and a.us is not None and not is_sym(a.us):
                # overflow check on the float (datetime range), then opaque
                return SymDT(src=(a.us, b.src, t is ast.Add))
            raise Unsupported("datetime arithmetic on opaque values")
        us = eng.op("Add" if t is ast.Add else "Sub", a.us, b.us)
        check_dt_range(eng, us)
        return SymDT(us)
    if isinstance(a, (SymTD, _dt.timedelta)) and isinstance(b, (SymDT, _dt.datetime)) and t is ast.Add:
        return binop(eng, op, b, a)
    if isinstance(a, (SymDT, _dt.datetime)) and isinstance(b, (SymDT, _dt.datetime)) and t is ast.Sub:
        a, b = to_dt(eng, a), to_dt(eng, b)
        return SymTD(eng.op("Sub", _need(a, "datetime"), _need(b, "datetime")))
    if isinstance(a, (SymTD, _dt.timedelta)) and isinstance(b, (SymTD, _dt.timedelta)) and t in (ast.Add, ast.Sub):
        a, b = to_td(eng, a), to_td(eng, b)
        us = eng.op("Add" if t is ast.Add else "Sub", _need(a, "timedelta"), _need(b, "timedelta"))
        check_td_range(eng, us)
        return SymTD(us)
    if isinstance(a, (SymTD, _dt.timedelta)) and t in (ast.FloorDiv, ast.Mod, ast.Div) and isinstance(b, (SymTD, _dt.timedelta)):
        a, b = to_td(eng, a), to_td(eng, b)
        if t is ast.Div:
            return eng.binop(op, _need(a, "timedelta"), _need(b, "timedelta"))
        r = eng.binop(op, _need(a, "timedelta"), _need(b, "timedelta"))
        return r if t is ast.FloorDiv else SymTD(r)
    if isinstance(a, (SymTD, _dt.timedelta)) and t in (ast.Mult, ast.FloorDiv) and isinstance(b, (int, SymInt, SymBV)):
        a = to_td(eng, a)
        return SymTD(eng.binop(op, _need(a, "timedelta"), b))
    raise Unsupported(f"datetime binop {t.__name__} {type(a).__name__} {type(b).__name__}")


def compare(eng, t, a, b):
    if isinstance(a, (SymDT, _dt.datetime)) and isinstance(b, (SymDT, _dt.datetime)):
        a, b = to_dt(eng, a), to_dt(eng, b)
        return eng.compare(t(), _need(a, "datetime"), _need(b, "datetime"))
    if isinstance(a, (SymTD, _dt.timedelta)) and isinstance(b, (SymTD, _dt.timedelta)):
        a, b = to_td(eng, a), to_td(eng, b)
        return eng.compare(t(), _need(a, "timedelta"), _need(b, "timedelta"))
    if t is ast.Eq:
        return False
    if t is ast.NotEq:
        return True
    raise TypeError("ordering between datetime and non-datetime")


def neg(eng, v):
    return SymTD(eng.neg(_need(v, "timedelta")))


# civil calendar from a day count (days since 0001-01-01 = ordinal-1), all in LIA with constant div/mod
def civil_from_days(eng, days):
    """returns (year, month, day) for proleptic Gregorian ordinal = days+1 (Howard Hinnant's algorithm)"""
    z = eng.op("Add", days, 306)            # shift epoch to 0000-03-01
    era = eng.op("FloorDiv", z, 146097)
    doe = eng.op("Mod", z, 146097)
    yoe = eng.op("FloorDiv", eng.op("Sub", eng.op("Sub", eng.op("Add", doe, eng.neg(eng.op("FloorDiv", doe, 1460))),
                                                   eng.neg(eng.op("FloorDiv", doe, 36524))),
                                        eng.op("FloorDiv", doe, 146096)), 365)
    y = eng.op("Add", yoe, eng.op("Mult", era, 400))
    doy = eng.op("Sub", doe, eng.op("Sub", eng.op("Add", eng.op("Mult", yoe, 365), eng.op("FloorDiv", yoe, 4)),
                                    eng.op("FloorDiv", yoe, 100)))
    mp = eng.op("FloorDiv", eng.op("Add", eng.op("Mult", doy, 5), 2), 153)
    d = eng.op("Add", eng.op("Sub", doy, eng.op("FloorDiv", eng.op("Add", eng.op("Mult", mp, 153), 2), 5)), 1)
    if eng.truth(eng.cmp("Lt", mp, 10)):
        m = eng.op("Add", mp, 3)
    else:
        m = eng.op("Sub", mp, 9)
        y = eng.op("Add", y, 1)
    return y, m, d


def dt_fields(eng, v):
    us = _need(v, "datetime")
    days = eng.op("FloorDiv", us, DAY_US)
    rem = eng.op("Mod", us, DAY_US)
    secs = eng.op("FloorDiv", rem, US)
    micro = eng.op("Mod", rem, US)
    hour = eng.op("FloorDiv", secs, 3600)
    minute = eng.op("FloorDiv", eng.op("Mod", secs, 3600), 60)
    second = eng.op("Mod", secs, 60)
    return days, hour, minute, second, micro


FIELD_NAMES = ("year", "month", "day", "hour", "minute", "second", "microsecond")
WEEKDAYS = ["Monday", "Tuesday", "Wednesday", "Thursday", "Friday", "Saturday", "Sunday"]
MONTHS = ["January", "February", "March", "April", "May", "June", "July", "August", "September", "October", "November",
          "December"]


def _days(eng, v):
    if v.days is not None:
        return v.days
    return eng.op("FloorDiv", _need(v, "datetime"), DAY_US)


def _pad(eng, v, width):
    from .strmodels import str_method
    s = eng.int_to_str(v) if is_sym(v) else str(v)
    return str_method(eng, s, "zfill", [width], {}) if width else s


CUM_DAYS = [0, 31, 59, 90, 120, 151, 181, 212, 243, 273, 304, 334]


def day_of_year(eng, v):
    y, m, d = v.fields[0], v.fields[1], v.fields[2]
    if not is_sym(m):
        # month known: days before the month + day (+1 after February in leap years; one fork on the leap rule)
        yd = eng.op("Add", CUM_DAYS[m - 1], d)
        if m > 2:
            leap = eng.and_(eng.cmp("Eq", eng.op("Mod", y, 4), 0),
                            eng.or_(eng.cmp("NotEq", eng.op("Mod", y, 100), 0), eng.cmp("Eq", eng.op("Mod", y, 400), 0)))
            if eng.truth(leap):
                yd = eng.op("Add", yd, 1)
        return yd
    jan1 = m_datetime(eng, y, 1, 1)
    return eng.op("Add", eng.op("Sub", eng.op("FloorDiv", v.us, DAY_US), eng.op("FloorDiv", jan1.us, DAY_US)), 1)


def strftime(eng, v, fmt):
    """C-locale strftime for the codes numbers_parser uses"""
    if is_sym(fmt):
        raise Unsupported("symbolic strftime format")
    f = v.fields if v.fields is not None else None
    if f is None:
        days, hour, minute, second, micro = dt_fields(eng, v)
        y, mo, d = civil_from_days(eng, days)
    else:
        y, mo, d, hour, minute, second, micro = f
    out = []
    i = 0
    while i < len(fmt):
        c = fmt[i]
        if c != "%":
            out.append(c)
            i += 1
            continue
        i += 1
        nopad = False
        if fmt[i] == "-":
            nopad = True
            i += 1
        code = fmt[i]
        i += 1
        if code == "Y":
            out.append(_pad(eng, y, 0 if nopad else 4) if False else _pad(eng, y, 0))   # glibc: no padding for %Y
        elif code == "y":
            out.append(_pad(eng, eng.op("Mod", y, 100), 0 if nopad else 2))
        elif code == "m":
            out.append(_pad(eng, mo, 0 if nopad else 2))
        elif code == "d":
            out.append(_pad(eng, d, 0 if nopad else 2))
        elif code == "H":
            out.append(_pad(eng, hour, 0 if nopad else 2))
        elif code == "I":
            h12 = eng.op("Mod", hour, 12)
            if eng.truth(eng.cmp("Eq", h12, 0)):
                h12 = 12
            out.append(_pad(eng, h12, 0 if nopad else 2))
        elif code == "M":
            out.append(_pad(eng, minute, 0 if nopad else 2))
        elif code == "S":
            out.append(_pad(eng, second, 0 if nopad else 2))
        elif code == "p":
            out.append("AM" if eng.truth(eng.cmp("Lt", hour, 12)) else "PM")
        elif code in ("A", "a"):
            wd = eng.concretize_int(eng.op("Mod", eng.op("FloorDiv", v.us, DAY_US), 7), "weekday")
            out.append(WEEKDAYS[wd] if code == "A" else WEEKDAYS[wd][:3])
        elif code in ("B", "b"):
            m_ = eng.concretize_int(mo, "month")
            out.append(MONTHS[m_ - 1] if code == "B" else MONTHS[m_ - 1][:3])
        elif code == "W":
            if f is None:
                raise Unsupported("%W without fields")
            # week of year, Monday first: (yday + 7 - weekday) // 7 with yday 0-based, weekday Monday=0
            yday0 = eng.op("Sub", day_of_year(eng, v), 1)
            wd = eng.op("Mod", _days(eng, v), 7)
            out.append(_pad(eng, eng.op("FloorDiv", eng.op("Sub", eng.op("Add", yday0, 7), wd), 7), 0 if nopad else 2))
        elif code == "%":
            out.append("%")
        else:
            raise Unsupported("strftime code %" + code)
    return eng.concat_str(out)


class _TimeTuple(tuple):
    """time.struct_time of a symbolic datetime: (year, month, day, hour, minute, second, weekday, yearday, isdst)"""

    def __new__(cls, items):
        obj = tuple.__new__(cls, items)
        (obj.tm_year, obj.tm_mon, obj.tm_mday, obj.tm_hour, obj.tm_min, obj.tm_sec, obj.tm_wday, obj.tm_yday,
         obj.tm_isdst) = items
        return obj


def time_tuple(eng, v, isdst):
    if v.fields is None:
        days, h, mi, sec, _us = dt_fields(eng, v)
        y, mo, d = civil_from_days(eng, days)
        if is_sym(mo):
            mo = eng.concretize_int(mo, "month")
        yday = eng.op("Add", eng.op("Sub", days, _days_before_year(eng, y)), 1)
        return _TimeTuple((y, mo, d, h, mi, sec, eng.op("Mod", days, 7), yday, isdst))
    y, mo, d, h, mi, sec, _us = v.fields
    return _TimeTuple((y, mo, d, h, mi, sec, eng.op("Mod", _days(eng, v), 7), day_of_year(eng, v), isdst))


def dt_attr(eng, v, name):
    if v.fields is not None and name in FIELD_NAMES:
        return v.fields[FIELD_NAMES.index(name)]
    if name in ("hour", "minute", "second", "microsecond"):
        days, hour, minute, second, micro = dt_fields(eng, v)
        return {"hour": hour, "minute": minute, "second": second, "microsecond": micro}[name]
    if name in ("year", "month", "day"):
        days = eng.op("FloorDiv", _need(v, "datetime"), DAY_US)
        y, m, d = civil_from_days(eng, days)
        return {"year": y, "month": m, "day": d}[name]
    if name == "tzinfo":
        return None
    if name in ("weekday", "isoweekday", "isocalendar", "toordinal", "timetuple", "utctimetuple", "replace", "date", "strftime", "isoformat",
                "astimezone", "timestamp", "time"):
        return DTMethod(v, name)
    if hasattr(_dt.datetime, name):
        raise Unsupported("datetime attribute not modelled: " + name)     # present natively: not an AttributeError
    raise AttributeError(name)


def td_attr(eng, v, name):
    if name == "total_seconds":
        return DTMethod(v, name)
    us = _need(v, "timedelta")
    if name == "days":
        return eng.op("FloorDiv", us, DAY_US)
    if name == "seconds":
        return eng.op("FloorDiv", eng.op("Mod", us, DAY_US), US)
    if name == "microseconds":
        return eng.op("Mod", us, US)
    if hasattr(_dt.timedelta, name):
        raise Unsupported("timedelta attribute not modelled: " + name)
    raise AttributeError(name)


class DTMethod:
    _is_model = True

    def __init__(self, v, name):
        self.v, self.name = v, name

    def __call__(self, eng, *args, **kw):
        v, n = self.v, self.name
        if n == "total_seconds":
            if v.us is None:
                f, k = v.src
                if k == US:
                    return f
                raise Unsupported("total_seconds of opaque timedelta")
            us = v.us
            # exact when whole seconds; otherwise correctly rounded quotient us / 10^6
            if not is_sym(us):
                return us / US
            if eng.must(eng.cmp("Eq", eng.op("Mod", us, US), 0)):
                return eng.as_float(eng.op("FloorDiv", us, US))
            return SymFloat(quot=(us, US)) if eng.must(eng.cmp("GtE", us, 0)) else eng.float_binop(ast.Div(), eng.as_float(us), float(US))
        if n == "weekday":
            days = _days(eng, v)
            return eng.op("Mod", days, 7)       # 0001-01-01 is a Monday
        if n == "isoweekday":
            days = _days(eng, v)
            return eng.op("Add", eng.op("Mod", days, 7), 1)
        if n == "isocalendar":
            return isocalendar(eng, v)
        if n == "toordinal":
            return eng.op("Add", eng.op("FloorDiv", _need(v, "datetime"), DAY_US), 1)
        if n == "strftime":
            return strftime(eng, v, args[0])
        if n == "replace":
            if v.fields is None:
                raise Unsupported("replace on a datetime not built from fields")
            f = list(v.fields)
            for k, val in kw.items():
                f[FIELD_NAMES.index(k)] = val
            return m_datetime(eng, *f)
        if n == "timetuple":
            return time_tuple(eng, v, -1)
        if n == "utctimetuple":
            return time_tuple(eng, v, 0)          # naive datetimes only (aware symbolic datetimes are unsupported)
        raise Unsupported("datetime method " + n)


def _leap_term(eng, year):
    return eng.and_(eng.cmp("Eq", eng.op("Mod", year, 4), 0),
                    eng.or_(eng.cmp("NotEq", eng.op("Mod", year, 100), 0), eng.cmp("Eq", eng.op("Mod", year, 400), 0)))


def _days_before_year(eng, year):
    """days from 0001-01-01 to 1 January of `year` (CPython's _days_before_year)"""
    ym = eng.op("Sub", year, 1)
    return eng.op("Add", eng.op("Sub", eng.op("Add", eng.op("Mult", ym, 365), eng.op("FloorDiv", ym, 4)),
                                eng.op("FloorDiv", ym, 100)), eng.op("FloorDiv", ym, 400))


def days_from_civil(eng, year, month, day):
    """whole days since 0001-01-01 for a calendar date with a concrete month"""
    days = _days_before_year(eng, year)
    days = eng.op("Add", days, CUM_DAYS[month - 1])
    if month > 2:
        # one shared term per year (days before 1 January) + days before the month + leap day as an if-then-else:
        # dates of the same year differ by a linear term, which is what weekday / week-number reasoning needs
        leap_t = _leap_term(eng, year)
        if isinstance(leap_t, SymBool):
            days = eng.op("Add", days, eng.define_var("leapday", z3.If(leap_t.t, z3.IntVal(1), z3.IntVal(0)), 0, 1))
        elif leap_t:
            days = eng.op("Add", days, 1)
    return eng.op("Add", days, eng.op("Sub", day, 1))


def m_timegm(eng, tt):
    """calendar.timegm: seconds since 1970-01-01 of a (UTC) time tuple"""
    import calendar
    if not deep_sym(tuple(tt)):
        return calendar.timegm(tt)
    year, month, day, hour, minute, second = tuple(tt)[:6]
    if is_sym(month):
        month = eng.concretize_int(month, "month")
    days = eng.op("Sub", days_from_civil(eng, year, month, day), 719162)
    secs = eng.op("Add", eng.op("Add", eng.op("Mult", hour, 3600), eng.op("Mult", minute, 60)), second)
    return eng.op("Add", eng.op("Mult", days, 86400), secs)


def isocalendar(eng, v):
    """(ISO year, ISO week, ISO weekday): the week belongs to the year that holds its Thursday"""
    if v.fields is None:
        raise Unsupported("isocalendar on a datetime not built from fields")
    year = v.fields[0]
    days = _days(eng, v)
    wd = eng.op("Mod", days, 7)
    thursday = eng.op("Add", eng.op("Sub", days, wd), 3)
    jan1 = _days_before_year(eng, year)
    if eng.truth(eng.cmp("Lt", thursday, jan1)):
        iso_year = eng.op("Sub", year, 1)
        jan1 = _days_before_year(eng, iso_year)
    elif eng.truth(eng.cmp("GtE", thursday, _days_before_year(eng, eng.op("Add", year, 1)))):
        iso_year = eng.op("Add", year, 1)
        jan1 = _days_before_year(eng, iso_year)
    else:
        iso_year = year
    week = eng.op("Add", eng.op("FloorDiv", eng.op("Sub", thursday, jan1), 7), 1)
    return (iso_year, week, eng.op("Add", wd, 1))


def m_datetime(eng, year, month=None, day=None, hour=0, minute=0, second=0, microsecond=0, tzinfo=None, **kw):
    args = [year, month, day, hour, minute, second, microsecond]
    if not any(is_sym(a) for a in args):
        return _dt.datetime(year, month, day, hour, minute, second, microsecond, tzinfo, **kw)
    if tzinfo is not None:
        raise Unsupported("aware symbolic datetime")
    # days from civil (inverse of civil_from_days)
    for v, lo, hi, nm in ((year, 1, 9999, "year"), (month, 1, 12, "month"), (hour, 0, 23, "hour"),
                          (minute, 0, 59, "minute"), (second, 0, 59, "second"), (microsecond, 0, 999999, "microsecond")):
        if eng.truth(eng.or_(eng.cmp("Lt", v, lo), eng.cmp("Gt", v, hi))):
            raise ValueError(f"{nm} is out of range")
    if is_sym(month):
        month = eng.concretize_int(month, "month")
    days = days_from_civil(eng, year, month, day)
    # day validity
    leap = eng.and_(eng.cmp("Eq", eng.op("Mod", year, 4), 0),
                    eng.or_(eng.cmp("NotEq", eng.op("Mod", year, 100), 0), eng.cmp("Eq", eng.op("Mod", year, 400), 0)))
    dim = [31, 28, 31, 30, 31, 30, 31, 31, 30, 31, 30, 31][month - 1]
    if month == 2 and eng.truth(leap):
        dim = 29
    if eng.truth(eng.or_(eng.cmp("Lt", day, 1), eng.cmp("Gt", day, dim))):
        raise ValueError("day is out of range for month")
    secs = eng.op("Add", eng.op("Add", eng.op("Mult", hour, 3600), eng.op("Mult", minute, 60)), second)
    us = eng.op("Add", eng.op("Add", eng.op("Mult", days, DAY_US), eng.op("Mult", secs, US)), microsecond)
    return SymDT(us, fields=(year, month, day, hour, minute, second, microsecond), days=days)


def install(eng):
    eng.models[_dt.timedelta] = m_timedelta
    eng.models[_dt.datetime] = m_datetime
    import calendar
    eng.models[calendar.timegm] = m_timegm
