"""C07 - saved packages are structurally sound: row records, tile partition, fresh identifiers."""
import numbers_parser.containers as containers_mod
from numbers_parser.constants import PACKAGE_ID
from numbers_parser.containers import ObjectStore
from numbers_parser.generated import TSPMessages_pb2 as TSPMessages
from numbers_parser.generated import TSTArchives_pb2 as TSTArchives
from numbers_parser.model import _NumbersModel, get_storage_buffers_for_row
from numbers_parser.numbers_cache import Cacheable

from pysym.api import BoolDom, BVDom, Cases, Harness, IntDom, assume, concretize, cover, nondet_int


class Rec:
    def __init__(self, **kw):
        self.__dict__.update(kw)

    def MergeFrom(self, other):
        self.__dict__.update(other.__dict__)

    def ClearField(self, name):
        setattr(self, name, Repeated())


class Repeated(list):
    """a protobuf repeated message field: a list whose add() appends a fresh element and returns it"""

    def add(self):
        r = Rec(tile=Rec())
        self.append(r)
        return r


def rec(eng=None, **kw):
    return Rec(**kw)


class FakeCell:
    def __init__(self, blob):
        self.blob = blob

    def _to_buffer(self):
        return self.blob


class RowModel(Cacheable):
    recalculate_row_info = _NumbersModel.recalculate_row_info


def h07a_row_record(p0, p1, p2, p3, l0, l1, l2, l3, row, tile_off):
    """offsets are in bounds, 4-byte aligned, strictly increasing; cell_count counts the records; the library's own
    decoder recovers each record"""
    assume(0 <= tile_off <= row < tile_off + 256)
    present = [p0, p1, p2, p3]
    lens = [l0, l1, l2, l3]
    cells = []
    for i in range(4):
        if present[i]:
            cells.append(FakeCell(bytes([65 + i]) * (4 * concretize(lens[i]))))
        else:
            cells.append(FakeCell(None))
    data = {row: cells, 0: cells}
    ri = RowModel().recalculate_row_info(7, data, tile_off, row)
    assert ri.tile_row_index == row - tile_off and 0 <= ri.tile_row_index < 256
    assert ri.cell_count == sum(1 for p in present if p)
    assert ri.storage_version == 5
    total = len(ri.cell_storage_buffer)
    assert total == sum(len(c.blob) for c in cells if c.blob is not None)
    got = get_storage_buffers_for_row(ri.cell_storage_buffer, ri.cell_offsets, 4, ri.has_wide_offsets)
    assert got == [c.blob for c in cells]
    from struct import unpack
    offs = unpack("<4h", ri.cell_offsets)
    last = -1
    for i in range(4):
        if present[i]:
            byte_off = offs[i] * 4 if ri.has_wide_offsets else offs[i]
            assert byte_off % 4 == 0 and 0 <= byte_off < total
            assert byte_off > last
            last = byte_off + len(cells[i].blob) - 1
        else:
            assert offs[i] == -1


class FakeData:
    """a grid of N rows whose length may be symbolic; every row is the same list of cells"""

    def __init__(self, n, row):
        self.n = n
        self.row = row

    def __len__(self):
        return self.n

    def __getitem__(self, i):
        return self.row


class TileObjects:
    def __init__(self, table):
        self.store = {7: table}
        self.created = []
        self.next = 1000

    def __getitem__(self, k):
        return self.store[k]

    def create_object_from_dict(self, iwa, d, cls):
        self.next += 1
        tile = Rec(**d)
        self.store[self.next] = tile
        self.created.append((self.next, tile))
        return self.next, tile

    def update_object_file_store(self):
        pass


class TileModel(Cacheable):
    recalculate_table_data = _NumbersModel.recalculate_table_data

    def __init__(self, ncols):
        self.table = Rec(number_of_rows=0, number_of_columns=0, base_column_row_uids=[1],
                         base_data_store=Rec(tiles=Rec(tiles=Repeated([Rec(tileid=i, tile=Rec(identifier=900 + i)) for i in range(3)]),
                                                     tile_size=0, should_use_wide_rows=False)))     # three stale tiles: the table had 600 rows
        self.objects = TileObjects(self.table)
        self.rows_seen = []
        self.registered = []
        self.string_resets = 0
        self.row_epochs = []

    def init_table_strings(self, table_id):
        # the real one empties the table's string list and restarts key allocation: every key handed out before is void
        self.string_resets += 1

    def recalculate_row_headers(self, table_id, data):
        pass

    def recalculate_column_headers(self, table_id, data):
        pass

    def recalculate_merged_cells(self, table_id):
        pass

    def update_paragraph_styles(self):
        pass

    def update_cell_styles(self, table_id, data):
        pass

    def add_component_metadata(self, object_id, parent, locator):
        self.registered.append((object_id, parent, locator))

    def recalculate_row_info(self, table_id, data, tile_row_offset, row):
        self.rows_seen.append((row, tile_row_offset))
        self.row_epochs.append(self.string_resets)       # the key numbering under which this row's text cells are encoded
        return Rec(tile_row_index=row - tile_row_offset, row=row)


def h07b_tiles(n, wide, window):
    if window:
        assume(n <= 258 or 510 <= n <= 514)
    """tiles are numbered 0.., each holds at most 256 rows, together exactly the N declared rows, every row once at
    tile_row_index = row - 256 * tile; the wide-row flag is set iff the table has more than 256 columns"""
    ncols = 257 if wide else 3
    m = TileModel(ncols)
    m.recalculate_table_data(7, FakeData(n, [None] * ncols))
    tiles = m.table.base_data_store.tiles.tiles
    assert m.table.number_of_rows == n and m.table.number_of_columns == ncols
    # the table lists exactly the tiles this save created - none left over from a previous, larger state of the table
    assert len(tiles) == len(m.objects.created)
    total = 0
    for i in range(len(tiles)):
        ref = tiles[i]
        assert ref.tileid == i
        tile = m.objects[ref.tile.identifier]
        assert 0 <= tile.numrows <= 256
        assert len(tile.rowInfos) == tile.numrows
        for j in range(len(tile.rowInfos)):
            assert tile.rowInfos[j].tile_row_index == j
            assert tile.rowInfos[j].row == 256 * i + j
        total += tile.numrows
    assert total == n
    # the string list is reset exactly once, before the first row is encoded: all rows' string keys live in ONE numbering
    assert m.string_resets == 1
    for e in m.row_epochs:
        assert e == 1
    # every tile archive the save creates is referenced by the table and listed in the package metadata
    created = [tid for tid, _ in m.objects.created]
    assert [ref.tile.identifier for ref in tiles] == created
    assert [r[0] for r in m.registered] == created
    for r in m.registered:
        assert r[1] == "CalculationEngine" and r[2] == "Tables/Tile-{}"
    assert m.table.base_data_store.tiles.tile_size == 256
    assert m.table.base_data_store.tiles.should_use_wide_rows == wide


class FakeIWork:
    def __init__(self, handler=None):
        self.handler = handler

    def open(self, filepath):
        self.handler.store_object("Index/Metadata.iwa", PACKAGE_ID, Rec(last_object_identifier=0))
        self.handler.store_object("Index/Document.iwa", nondet_int("existing-id-a", 3, 2 ** 20), "obj")
        self.handler.store_object("Index/Tables/x.iwa", nondet_int("existing-id-b", 3, 2 ** 20), "obj")


def h07c_identifiers(k):
    """identifiers handed out for new objects are pairwise distinct, above every existing identifier, and the package's
    recorded high-water mark equals the largest one"""
    s = ObjectStore("doc.numbers")
    existing = list(s._objects.keys())
    new = [s.new_message_id() for _ in range(k)]
    for i in range(k):
        for e in existing:
            assert new[i] > e
        for j in range(i):
            assert new[i] != new[j]
    if k:
        assert s._objects[PACKAGE_ID].last_object_identifier == max(new)
    for n in new:
        assert n <= s._objects[PACKAGE_ID].last_object_identifier


def _tile_ref(eng=None, **kw):
    return Rec(tileid=None, tile=Rec(), **kw)


class _TileRef(Rec):
    pass


def m_tile(eng):
    r = Rec(tileid=None)
    r.tile = r          # tile_ref.tile.MergeFrom(Reference(identifier=..)) records the identifier on the ref itself
    return r


HARNESSES = [
    Harness("H07a", h07a_row_record,
            dict(p0=BoolDom(), p1=BoolDom(), p2=BoolDom(), p3=BoolDom(), l0=IntDom(3, 5), l1=IntDom(3, 5), l2=IntDom(3, 5), l3=IntDom(3, 5),
                 row=IntDom(), tile_off=IntDom()),
            bounds="4 columns, any subset storing a record of 12/16/20 bytes; row and tile offset symbolic with row inside the tile",
            stubs=["TileRowInfo = attribute bag; cells' _to_buffer() returns the given blob"],
            outside=["reference closure and package metadata listing (protobuf object graph)", "re-openability by Numbers itself"],
            models={TSTArchives.TileRowInfo: rec}),
    Harness("H07b", h07b_tiles, lambda tier: dict(n=IntDom(1, 514 if tier == "quick" else 769), wide=BoolDom(), window=Cases([tier == "quick"])),
            bounds="number of rows symbolic in [1, 258] u [510, 514] (quick) / [1, 769] (thorough): the tile boundaries are inside the range; 3 or 257 columns",
            stubs=["every other model method is a no-op stub; tiles / references = attribute bags"],
            loop_bound=400,
            models={TSTArchives.TileStorage.Tile: m_tile, TSPMessages.Reference: rec}),
    Harness("H07c", h07c_identifiers, dict(k=Cases([0, 1, 2, 4])),
            bounds="two existing object ids besides the package object, each symbolic in [3, 2^20]; 0..4 allocations",
            stubs=["IWork.open replaced by a stub storing objects with nondeterministic ids",
                   "math.ceil(M / 10^6): lemma cut trunc(fp(a)/1e6) == a div 10^6"],
            patches=[(containers_mod, "IWork", FakeIWork)]),
]
# recalculate_merged_cells is one of the rebuild steps: what it writes must be what a reader takes from it - the merge-map
# codec harnesses are shared with C12
from specs import c12 as _c12   # noqa: E402

def h07d_merge_map(r0, c0, nr, nc, slack_r, slack_c):
    """the merge map a save writes is what a reader takes from it (rows the 16-bit row field can hold: the others are
    C12's known finding KF-C12-row16)"""
    assume(r0 + nr <= 65536)
    _c12.h12b_codec(r0, c0, nr, nc, slack_r, slack_c)


_h12b = [h for h in _c12.HARNESSES if h.name == "H12b"][0]
HARNESSES.append(Harness("H07d", h07d_merge_map, _h12b.inputs,
                         bounds="merge origin anywhere in rows < 65536 x columns < 1000 (symbolic), size 1..3 x 1..3",
                         stubs=list(_h12b.stubs), models=dict(_h12b.models)))
HARNESSES += [h for h in _c12.HARNESSES if h.name == "H12d"]
PROPERTY = "C07"
