"""C18 - formula tokenizer is lossless and total (TokenizerError is the only failure)."""
from numbers_parser.tokenizer import Tokenizer, TokenizerError

from pysym.api import Cases, Harness, StrDom, assume, cover


def h18a_lossless_total(s):
    try:
        tok = Tokenizer(s)
    except TokenizerError:
        cover("rejected")
        return
    out = "".join([t.value for t in tok.items])
    assert out == s
    for t in tok.items:
        assert len(t.value) > 0


def outcome18(s):
    try:
        tok = Tokenizer(s)
    except TokenizerError:
        return None
    return [t.value for t in tok.items]


def h18d_sequence(c0, rest, s2):
    """formulas are tokenized independently of each other: whatever was tokenized before (accepted or rejected
    part-way), the next formula is still tokenized losslessly, and the same way as when it is tokenized again"""
    outcome18(c0 + rest)
    first = outcome18(s2)
    again = outcome18(s2)
    if first is not None:
        assert "".join(first) == s2
    assert (first is None) == (again is None)
    if first is not None:
        assert first == again


def h18b_quoted_not_split(s):
    """a token that starts with a double quote is one complete quoted string: closing quote present,
    inner quotes doubled, and the next token does not continue it"""
    try:
        tok = Tokenizer(s)
    except TokenizerError:
        cover("rejected")
        return
    items = tok.items
    for i in range(len(items)):
        v = items[i].value
        if v.startswith('"'):
            assert len(v) >= 2 and v.endswith('"')
            assert v.count('"') % 2 == 0
            # inner quotes come in adjacent pairs
            inner = v[1:-1]
            j = 0
            while j < len(inner):
                if inner[j] == '"':
                    assert j + 1 < len(inner) and inner[j + 1] == '"'
                    j += 2
                else:
                    j += 1
            if i + 1 < len(items):
                assert not items[i + 1].value.startswith('"')
        if v.startswith("'"):
            assert len(v) >= 2 and v.endswith("'")
            check_quoted_names(v)
            if i + 1 < len(items):
                # a quote right after the closing quote would have been an escaped quote inside the name
                assert not items[i + 1].value.startswith("'")
    assert "".join([t.value for t in items]) == s


def check_quoted_names(v):
    """independent reader of a single-quoted token: one quoted name ('' is an escaped quote), optionally followed by
    further quoted names separated by a colon with optional white space - and nothing else"""
    n = len(v)
    j = 0
    while True:
        assert j < n and v[j] == "'"
        j += 1
        while True:
            assert j < n                      # the closing quote exists
            if v[j] == "'":
                if j + 1 < n and v[j + 1] == "'":
                    j += 2                    # escaped quote
                    continue
                j += 1
                break
            j += 1
        if j == n:
            return
        while j < n and v[j] in " \t\n\r\f\v":
            j += 1
        assert j < n and v[j] == ":"
        j += 1
        while j < n and v[j] in " \t\n\r\f\v":
            j += 1


def h18c_reader_output(s, low, op, fid, wrap):
    """formula text produced by the reader's own handlers (string literal with arbitrary characters, integer literal,
    cell reference, any binary operator, any known function) is accepted by the tokenizer and tokenized losslessly"""
    from specs.c08 import BINARY, FUNCTION_MAP, Node, ref, render
    assume(op in BINARY)
    nodes = [Node(AST_node_type=19, AST_string_node_string=s),
             Node(AST_node_type=17, AST_number_node_decimal_high=0x3040000000000000, AST_number_node_decimal_low=low),
             Node(AST_node_type=op), ref("B2"), Node(AST_node_type=1)]
    if wrap:
        assume(fid in FUNCTION_MAP)
        nodes.append(Node(AST_node_type=16, AST_function_node_numArgs=1, AST_function_node_index=fid))
    text = render(nodes)
    tok = Tokenizer(text)           # TokenizerError here is a violation: the reader emitted this text
    assert "".join([t.value for t in tok.items]) == text
    # the string literal is one token
    assert tok.items[1 if wrap else 0].value.startswith('"')


def h18e_label_reference(c0, c1, c2, n, absolute, rows, same_table):
    """a reference by header label, rendered by the reader's real name-scoping code (CellRange.expand_ref) for labels that
    contain operator characters or apostrophes, is accepted by the tokenizer and tokenized losslessly - plain, and inside
    a function call"""
    from specs.c09 import NamedModel, Node
    label = (c0 + c1 + c2)[:n]
    labels = {7: [label, "p"], 8: [label if not same_table else "q", "r"], 9: ["s", "t"]}
    m = NamedModel({7: "H", 8: "Tx", 9: "Ty"}, labels, rows)
    target = 7 if same_table else 8
    if rows:
        node = Node(AST_row=Node(row=0, absolute=absolute), NOFIELD_AST_column=Node(column=0, absolute=False),
                    AST_cross_table_reference_extra_info=Node(table_id=target))
        text = str(m.node_to_ref(7, 0, 1, node))
    else:
        node = Node(AST_column=Node(column=0, absolute=absolute), NOFIELD_AST_row=Node(row=0, absolute=False),
                    AST_cross_table_reference_extra_info=Node(table_id=target))
        text = str(m.node_to_ref(7, 1, 0, node))
    for formula in (text, "SUM(" + text + ")+1"):
        tok = Tokenizer(formula)          # TokenizerError here is a violation: the reader emitted this text
        assert "".join([t.value for t in tok.items]) == formula


QUOTE_ALPHABET = [(34, 34), (39, 39), (97, 97), (43, 43), (58, 58), (32, 32), (40, 41)]   # " ' a + : space ( )

HARNESSES = [
    Harness("H18a", h18a_lossless_total,
            lambda tier: dict(n=Cases([0, 1, 2, 3] if tier == "quick" else [0, 1, 2, 3, 4])) and None,
            bounds=""),
]


def _mk(n):
    return Harness(f"H18a-n{n}", h18a_lossless_total, dict(s=StrDom(n)),
                   bounds=f"every string of exactly {n} Unicode scalar values (all symbolic)",
                   outside=["strings longer than the bound (x22 paths per character)", "the ~4900 fixture formulas"],
                   stubs=["float(str) in Token.make_operand: outcome model {ValueError, some float} (only the token subtype depends on it)",
                          "re: alphabet-partition model of STRING_REGEXES / SN_RE"])


def _mkq(n):
    return Harness(f"H18b-n{n}", h18b_quoted_not_split, dict(s=StrDom(n, QUOTE_ALPHABET)),
                   bounds=f"every string of exactly {n} characters over the alphabet \" ' a + : space ( )")


NAME_ALPHABET_Q = [(39, 39), (58, 58), (97, 97)]                 # ' : a
NAME_ALPHABET_T = [(39, 39), (58, 58), (97, 97), (32, 32)]       # ' : a space


def _mkn(n, thorough=False):
    return Harness(f"H18b-names-n{n}", h18b_quoted_not_split, dict(s=StrDom(n, NAME_ALPHABET_T if thorough else NAME_ALPHABET_Q)),
                   bounds=f"every string of exactly {n} characters over the alphabet ' : a" + (" space" if thorough else "") +
                          " (quoted names and quoted ranges with escaped quotes in any end point)")


def _mkc(n):
    from pysym.api import BoolDom, IntDom
    return Harness(f"H18c-n{n}", h18c_reader_output,
                   lambda tier: dict(s=StrDom(n), low=IntDom(0, 999), op=IntDom(1, 12), fid=IntDom(1, 3 if tier == "quick" else 40), wrap=BoolDom()),
                   bounds=f"string literal of {n} arbitrary Unicode characters, integer literal 0..999, every binary operator, "
                          "function ids 1..3 (quick) / 1..40 (thorough), with/without an enclosing function call; rendered by the real formula handlers",
                   stubs=["formula nodes = attribute bags (as C08)"])


SEQ_ALPHABET = [(34, 34), (97, 97), (49, 49), (43, 43), (40, 41), (35, 35)]   # " a 1 + ( ) #


def _mkd(n1, n2):
    return Harness(f"H18d-n{n1}-n{n2}", h18d_sequence,
                   dict(c0=Cases(list('"a1+()#')), rest=StrDom(n1 - 1, SEQ_ALPHABET), s2=StrDom(n2, SEQ_ALPHABET)),
                   bounds=f"every formula of {n1} characters followed by every formula of {n2} characters (tokenized twice), "
                          "alphabet \" a 1 + ( ) #",
                   outside=["longer formulas, other characters", "more than one earlier formula"])


def harnesses(tier):
    ns = [0, 1, 2, 3]       # n = 4 (x22 paths) did not finish within 20 minutes on 16 cores: outside the claim
    qs = [4, 5]
    cs = [1] if tier == "quick" else [1, 2]
    names = [_mkn(7)] if tier == "quick" else [_mkn(7), _mkn(8, True)]
    import numbers_parser.model as modelmod
    from specs.c09 import NumbersUUIDStub
    LABEL_ALPHABET = [(97, 97), (45, 45), (39, 39), (32, 32)]          # a - ' space
    es = [Harness("H18e", h18e_label_reference,
                  dict(c0=StrDom(1, LABEL_ALPHABET), c1=StrDom(1, LABEL_ALPHABET), c2=StrDom(1, LABEL_ALPHABET),
                       n=Cases([1, 2] if tier == "quick" else [1, 2, 3]), absolute=Cases([False, True]), rows=Cases([False, True]),
                       same_table=Cases([False, True])),
                  bounds="header label of 1..2 (thorough: 3) characters over the alphabet a - ' space (symbolic), relative / absolute, "
                         "column / row label, target in the host table or another one; the reference alone and inside SUM(...)+1",
                  stubs=["model stub of C09/H09c (three small tables); the real ScopedNameRefCache / CellRange render the reference"],
                  patches=[(modelmod, "NumbersUUID", NumbersUUIDStub)])]
    ds = [_mkd(2, 2)] if tier == "quick" else [_mkd(2, 2), _mkd(3, 2), _mkd(3, 3)]
    return [_mk(n) for n in ns] + [_mkq(n) for n in qs] + names + [_mkc(n) for n in cs] + ds + es


HARNESSES = harnesses("thorough")
TIER_HARNESSES = {"quick": [h.name for h in harnesses("quick")], "thorough": [h.name for h in harnesses("thorough")]}
PROPERTY = "C18"
