"""C01 - values written to cells are read back exactly (record level: _from_value -> _to_buffer -> _from_storage)."""
from datetime import datetime, timedelta

from numbers_parser.cell import (BoolCell, Cell, DateCell, DurationCell, NumberCell, TextCell, _pack_decimal128,
                                 _unpack_decimal128)
from numbers_parser.constants import EPOCH

from pysym.api import BoolDom, Cases, DecFloatDom, Harness, IntDom, assume, concretize, cover, nondet_bv


class StubMerge:
    def get(self, rc):
        return None


class StubModel:
    """string table contract (decided on the real DataLists code in C06/H06a): a key handed out for a value returns
    that same value"""

    def __init__(self):
        self.strings = {}

    def merge_cells(self, table_id):
        return StubMerge()

    def table_string_key(self, table_id, value):
        k = nondet_bv("string-key", 31)
        self.strings[k] = value
        return k

    def table_string(self, table_id, key):
        return self.strings[key]

    def table_rich_text(self, table_id, key):
        return {"text": "", "bullets": [], "hyperlinks": [], "bulleted": False}


def roundtrip(value):
    model = StubModel()
    cell = Cell._from_value(3, 4, value)
    cell._model = model
    cell._table_id = 7
    buf = cell._to_buffer()
    assert len(buf) % 4 == 0
    out = Cell._from_storage(7, 3, 4, buf, model)
    assert type(out) is type(cell)
    assert out.row == 3 and out.col == 4
    return out


def h01_int(n):
    out = roundtrip(n)
    assert isinstance(out, NumberCell)
    assert out.value == n


def h01_dec(x):
    """finite float with <= 15 significant digits, quantified as the decimal the writer is handed"""
    out = roundtrip(x)
    assert isinstance(out, NumberCell)
    assert out.value == x
    assert _unpack_decimal128(_pack_decimal128(x)) == x


def h01_zero():
    assert roundtrip(0).value == 0
    assert roundtrip(0.0).value == 0.0


def h01_bool(b):
    out = roundtrip(b)
    assert isinstance(out, BoolCell)
    assert out.value == b


def h01_text():
    text = "any text: the characters are never inspected"
    out = roundtrip(text)
    assert isinstance(out, TextCell)
    assert out.value is text


def h01_date(secs):
    """naive datetimes at whole seconds over years 1..9999"""
    value = EPOCH + timedelta(seconds=secs)
    out = roundtrip(value)
    assert isinstance(out, DateCell)
    assert out.value == value


def h01_duration(secs):
    value = timedelta(seconds=secs)
    out = roundtrip(value)
    assert isinstance(out, DurationCell)
    assert out.value == value


def h01_date_us(us):
    """naive datetimes at microsecond resolution, 1900-01-01 .. 2100-12-31"""
    value = EPOCH + timedelta(microseconds=us)
    out = roundtrip(value)
    assert isinstance(out, DateCell)
    assert out.value == value


def h01_duration_us(us):
    value = timedelta(microseconds=us)
    out = roundtrip(value)
    assert isinstance(out, DurationCell)
    assert out.value == value


E_QUICK = [-290, -30, -7, -5, -4, -1, 0, 1, 2, 5, 14, 15, 16, 17, 22, 100, 289]
E_THOROUGH = list(range(-290, 290))
N_QUICK = [1, 2, 3, 7, 15]
N_THOROUGH = list(range(1, 16))
YEAR1 = -63113904000          # 0001-01-01 relative to 2001-01-01, seconds
YEAR9999 = 252423993599       # 9999-12-31T23:59:59

US1900 = (datetime(1900, 1, 1) - EPOCH) // timedelta(microseconds=1)
US2100 = (datetime(2100, 12, 31, 23, 59, 59, 999999) - EPOCH) // timedelta(microseconds=1)
FP_ENCLOSURE = ("binary64 arithmetic on non-integral values (timedelta.total_seconds, timedelta(seconds=float), float +-*/ by "
                "constants) is encoded as the IEEE-754 round-to-nearest error enclosure over linear real/integer arithmetic: "
                "|RN(v) - v| <= 2^-53 |v| + 2^-1074, integers <= 2^53 are fixed points, rounding is monotone; "
                "timedelta(seconds=x) follows CPython's accum()/delta_new (modf exact, fraction scaled by 10^6 and rounded "
                "half-to-even). Sound over-approximation: what is proved holds for the real doubles")

HARNESSES = [
    Harness("H01-int", h01_int, dict(n=IntDom(-(10 ** 15) + 1, 10 ** 15 - 1)),
            bounds="every int |n| < 10^15 (symbolic)",
            outside=["tiles / row infos / protobuf / snappy / zip / reopen (C-level and I/O)", "auto-grow (C11/H11b, C03)"],
            stubs=["Decimal(repr(x)).as_tuple(): digits of the value (contract of repr/Decimal)", "model stub: string table, merge map"]),
    Harness("H01-dec", h01_dec,
            lambda tier: dict(x=Cases([None])) and dict(e=Cases(E_QUICK if tier == "quick" else E_THOROUGH), n=Cases(N_QUICK if tier == "quick" else N_THOROUGH)),
            bounds=""),
    Harness("H01-zero", h01_zero, dict(), bounds="0 and 0.0"),
    Harness("H01-bool", h01_bool, dict(b=BoolDom()), bounds="both bools"),
    Harness("H01-text", h01_text, dict(), bounds="text payload is opaque to the record codec: one representative object, identity preserved",
            outside=["the characters of the text (protobuf string table serialisation)"]),
    Harness("H01-date", h01_date, dict(secs=IntDom(YEAR1, YEAR9999)),
            bounds="every whole second from 0001-01-01T00:00:00 to 9999-12-31T23:59:59",
            outside=["sub-second datetimes outside 1900..2100 (beyond the property's quantifier: doubles of that magnitude "
                     "cannot hold microseconds)"]),
    Harness("H01-dur", h01_duration, dict(secs=IntDom(-3155760000, 3155760000)),
            bounds="every whole-second timedelta within +-100 years"),
    Harness("H01-date-us", h01_date_us, dict(us=IntDom(US1900, US2100)),
            bounds="every microsecond from 1900-01-01T00:00:00 to 2100-12-31T23:59:59.999999",
            stubs=[FP_ENCLOSURE]),
    Harness("H01-dur-us", h01_duration_us, dict(us=IntDom(-3155760000 * 10 ** 6, 3155760000 * 10 ** 6)),
            bounds="every timedelta within +-100 years at microsecond resolution",
            stubs=[FP_ENCLOSURE]),
]


class _DecDom(DecFloatDom):
    pass


def _dec_harness():
    # one root per (digits, exponent): the DecFloat domain needs them concrete
    hs = []
    return hs


def h01_dec_case(n, e, x):
    h01_dec(x)


class PerCaseDec:
    """input domain whose shape depends on the Cases values n, e"""


HARNESSES[1] = None
HARNESSES = [h for h in HARNESSES if h is not None]


def _mk_dec(n, e):
    return Harness(f"H01-dec-n{n}-e{e}", h01_dec, dict(x=DecFloatDom(n, e)),
                   bounds=f"every float whose shortest decimal form has {n} significant digits (symbolic) and decimal exponent {e}, both signs",
                   stubs=["repr(float) == shortest round-trip digits; float <-> decimal identity is repr's documented guarantee (assumption)",
                          "sigfig.round(x, sigfigs=15): identity on values with <= 15 significant digits",
                          "int / int true division is correctly rounded (CPython guarantee): equal rationals give equal doubles"])


E_Q2 = sorted(set(E_QUICK + list(range(-290, 290, 10))))
_Q = [(n, e) for n in N_THOROUGH for e in E_Q2]
_T = [(n, e) for n in N_THOROUGH for e in E_THOROUGH]
HARNESSES += [_mk_dec(n, e) for n, e in _T]
BASE = ["H01-int", "H01-zero", "H01-bool", "H01-text", "H01-date", "H01-dur", "H01-date-us", "H01-dur-us"]
TIER_HARNESSES = {"quick": BASE + [f"H01-dec-n{n}-e{e}" for n, e in _Q],
                  "thorough": BASE + [f"H01-dec-n{n}-e{e}" for n, e in _T]}
# the tile / row-info rebuild on save is part of C01's mechanism: the harnesses are shared with C07
from specs import c07 as _c07   # noqa: E402

for _h in _c07.HARNESSES:
    if _h.name in ("H07a", "H07b"):
        HARNESSES.append(_h)
        TIER_HARNESSES["quick"].append(_h.name)
        TIER_HARNESSES["thorough"].append(_h.name)
# a text cell stores a key into the table's string list: "read back exactly" needs the list to keep texts apart whenever
# they differ as code-point sequences (H01-text treats the list as a contract; the real DataLists code is decided here)
from specs import c06 as _c06   # noqa: E402

for _h in _c06.HARNESSES:
    if _h.name in ("H06a-texts", "H06a-two-saves"):
        HARNESSES.append(_h)
        TIER_HARNESSES["quick"].append(_h.name)
        TIER_HARNESSES["thorough"].append(_h.name)
PROPERTY = "C01"
