"""C09 - references in formulas name exactly the stored target cells and table."""
from numbers_parser.model import _NumbersModel
from numbers_parser.numbers_cache import Cacheable
from numbers_parser.xrefs import CellRange

from pysym.api import BoolDom, BVDom, Cases, Harness, IntDom, StrDom, assume, concretize, cover

MAX_ROW = 1000000
MAX_COL = 1000


class Node:
    """formula node as an attribute bag. A keyword NOFIELD_<name> gives the attribute its protobuf default sub-message
    (readable) without the field being present (HasField false)."""

    def __init__(self, **kw):
        self._absent = set()
        for k, v in kw.items():
            if k.startswith("NOFIELD_"):
                k = k[len("NOFIELD_"):]
                self._absent.add(k)
            self.__dict__[k] = v

    def HasField(self, name):
        return name in self.__dict__ and name not in self._absent


class NameCache:
    """no header labels: every row / column is referred to by number / letter"""

    def __init__(self, tables, model=None):
        self.row_ranges = {t: NoNames() for t in tables}
        self.col_ranges = {t: NoNames() for t in tables}
        self.model = model
        self.table_names = []

    def refresh(self):
        # the real cache recomputes its copy of the table names whenever it is dirty; this one is always dirty
        if self.model is not None:
            self.table_names = self.model.table_names()


class NoNames:
    def __getitem__(self, i):
        return None


class RefModel(Cacheable):
    node_to_ref = _NumbersModel.node_to_ref

    def __init__(self, sheets):
        """sheets: list of (sheet name, [(table id, table name), ...])"""
        self.sheets = sheets
        self.name_ref_cache = NameCache([tid for _, ts in sheets for tid, _ in ts], self)

    def table_names(self):
        return [tn for _, ts in self.sheets for _, tn in ts]

    def table_name(self, table_id):
        for _, ts in self.sheets:
            for tid, tn in ts:
                if tid == table_id:
                    return tn
        return None

    def table_id_to_sheet_id(self, table_id):
        for i, (_, ts) in enumerate(self.sheets):
            for tid, _ in ts:
                if tid == table_id:
                    return i
        return None

    def sheet_name(self, sheet_id):
        return self.sheets[sheet_id][0]

    def table_uuids_to_id(self, uuid):
        return uuid


def parse_a1(s):
    """independent A1 reader: ($?)([A-Z]+)($?)(digits) -> (col_abs, col, row_abs, row)"""
    i = 0
    col_abs = False
    if s[i] == "$":
        col_abs = True
        i += 1
    col = 0
    n = 0
    while i < len(s) and "A" <= s[i] <= "Z":
        col = col * 26 + (ord(s[i]) - 64)
        i += 1
        n += 1
    assert n >= 1
    row_abs = False
    if i < len(s) and s[i] == "$":
        row_abs = True
        i += 1
    assert i < len(s)
    row = 0
    while i < len(s):
        assert "0" <= s[i] <= "9"
        row = row * 10 + (ord(s[i]) - 48)
        i += 1
    return col_abs, col - 1, row_abs, row - 1


def h09a_cell(row, col, srow, scol, row_abs, col_abs):
    """single cell reference: relative parts resolve from the host by the stored offsets, absolute parts carry '$' and
    the stored coordinate"""
    trow = srow if row_abs else row + srow
    tcol = scol if col_abs else col + scol
    assume(0 <= row < MAX_ROW and 0 <= col < MAX_COL and 0 <= trow < MAX_ROW and 0 <= tcol < MAX_COL)
    m = RefModel([("Sheet 1", [(7, "Table 1")])])
    node = Node(AST_row=Node(row=srow, absolute=row_abs), AST_column=Node(column=scol, absolute=col_abs))
    text = str(m.node_to_ref(7, row, col, node))
    ca, c, ra, r = parse_a1(text)
    assert ca == col_abs and ra == row_abs
    assert r == trow and c == tcol


def entry(begin, end):
    if end is None:
        return Node(range_begin=begin)
    return Node(range_begin=begin, range_end=end)


def axis_lists(b_abs, e_abs, b, e):
    """stored form of one axis of a rectangle: (absolute list, relative list)"""
    if b_abs and e_abs:
        return [entry(b, e)], []
    if b_abs:
        return [entry(b, None)], [entry(e, None)]
    if e_abs:
        return [entry(e, None)], [entry(b, None)]
    return [], [entry(b, e)]


def h09a_rect(row, col, rb, re, cb, ce, rb_abs, re_abs, cb_abs, ce_abs, row_window):
    """rectangle reference (colon tract): both corners resolved independently; end points not swapped"""
    trb = rb if rb_abs else row + rb
    tre = re if re_abs else row + re
    tcb = cb if cb_abs else col + cb
    tce = ce if ce_abs else col + ce
    assume(0 <= row < MAX_ROW and 0 <= col < MAX_COL)
    row_lo, row_limit = row_window
    assume(row_lo <= trb <= tre < row_limit and 0 <= tcb <= tce < MAX_COL)
    assume(not (trb == tre and tcb == tce))
    m = RefModel([("Sheet 1", [(7, "Table 1")])])
    ar, rr = axis_lists(rb_abs, re_abs, rb, re)
    ac, rc = axis_lists(cb_abs, ce_abs, cb, ce)
    node = Node(AST_colon_tract=Node(absolute_row=ar, relative_row=rr, absolute_column=ac, relative_column=rc),
                AST_sticky_bits=Node(begin_row_is_absolute=rb_abs, end_row_is_absolute=re_abs,
                                     begin_column_is_absolute=cb_abs, end_column_is_absolute=ce_abs))
    text = str(m.node_to_ref(7, row, col, node))
    parts = text.split(":")
    assert len(parts) == 2
    ca, c, ra, r = parse_a1(parts[0])
    assert (ca, ra) == (cb_abs, rb_abs) and (r, c) == (trb, tcb)
    ca, c, ra, r = parse_a1(parts[1])
    assert (ca, ra) == (ce_abs, re_abs) and (r, c) == (tre, tce)


def parse_row(s):
    """($?)(digits) -> (absolute, zero-based row)"""
    i = 0
    ab = False
    if s[i] == "$":
        ab = True
        i += 1
    assert i < len(s)
    row = 0
    while i < len(s):
        assert "0" <= s[i] <= "9"
        row = row * 10 + (ord(s[i]) - 48)
        i += 1
    return ab, row - 1


def parse_col(s):
    """($?)([A-Z]+) -> (absolute, zero-based column)"""
    i = 0
    ab = False
    if s[i] == "$":
        ab = True
        i += 1
    assert i < len(s)
    col = 0
    while i < len(s):
        assert "A" <= s[i] <= "Z"
        col = col * 26 + (ord(s[i]) - 64)
        i += 1
    return ab, col - 1


OPEN_ROW = 0x7FFFFFFF
OPEN_COL = 0x7FFF


def h09a_span(row, col, b, e, b_abs, e_abs, rows):
    """whole-row span 'r1:r2' / whole-column span 'C1:C2' stored as a colon tract whose other axis is open-ended: both
    end points resolved independently, not swapped, nothing of the open axis printed"""
    limit = MAX_ROW if rows else MAX_COL
    host = row if rows else col
    tb = b if b_abs else host + b
    te = e if e_abs else host + e
    assume(0 <= row < MAX_ROW and 0 <= col < MAX_COL)
    assume(0 <= tb <= te < limit)
    m = RefModel([("Sheet 1", [(7, "Table 1")])])
    lists = axis_lists(b_abs, e_abs, b, e)
    open_row = ([entry(OPEN_ROW, None)], [])
    open_col = ([entry(OPEN_COL, None)], [])
    ar, rr = lists if rows else open_row
    ac, rc = open_col if rows else lists
    node = Node(AST_colon_tract=Node(absolute_row=ar, relative_row=rr, absolute_column=ac, relative_column=rc),
                AST_sticky_bits=Node(begin_row_is_absolute=b_abs if rows else False, end_row_is_absolute=e_abs if rows else False,
                                     begin_column_is_absolute=False if rows else b_abs, end_column_is_absolute=False if rows else e_abs))
    text = str(m.node_to_ref(7, row, col, node))
    parts = text.split(":")
    assert len(parts) == 2
    first = parse_row(parts[0]) if rows else parse_col(parts[0])
    second = parse_row(parts[1]) if rows else parse_col(parts[1])
    assert first == (b_abs, tb)
    assert second == (e_abs, te)


def h09a_single_axis(row, col, v, v_abs, rows):
    """a reference to one whole row ('r:r') or one whole column ('C'), stored as a row-only / column-only node"""
    limit = MAX_ROW if rows else MAX_COL
    host = row if rows else col
    tv = v if v_abs else host + v
    assume(0 <= row < MAX_ROW and 0 <= col < MAX_COL and 0 <= tv < limit)
    m = RefModel([("Sheet 1", [(7, "Table 1")])])
    if rows:
        node = Node(AST_row=Node(row=v, absolute=v_abs), NOFIELD_AST_column=Node(column=0, absolute=False))
    else:
        node = Node(AST_column=Node(column=v, absolute=v_abs), NOFIELD_AST_row=Node(row=0, absolute=False))
    text = str(m.node_to_ref(7, row, col, node))
    if rows:
        parts = text.split(":")
        assert len(parts) == 2
        assert parse_row(parts[0]) == (v_abs, tv)
        assert parse_row(parts[1]) == (v_abs, tv)
    else:
        assert parse_col(text) == (v_abs, tv)


def h09b_qualify(n_host, n_same, n_other, n_third, n_fourth, target, s2, s3):
    """a reference into another table is qualified so that, given the document's own names, exactly one table matches -
    the stored one"""
    # sheet 0: host table 7 and table 8; sheet 1: tables 9 and 10; names are 1-character symbolic atoms
    assume(s2 != "1" and s3 != "1" and s2 != s3)      # sheet names are unique in a document (C19)
    assume(n_other != n_third)        # table names are unique within a sheet (C19)
    names = {7: "H" + n_host, 8: "T" + n_same, 9: "T" + n_other, 10: "T" + n_third, 11: "T" + n_fourth}
    m = RefModel([("S1", [(7, names[7]), (8, names[8])]), ("S" + s2, [(9, names[9]), (10, names[10])]),
                  ("S" + s3, [(11, names[11])])])
    node = Node(AST_row=Node(row=1, absolute=False), AST_column=Node(column=1, absolute=False),
                AST_cross_table_reference_extra_info=Node(table_id=target))
    text = str(m.node_to_ref(7, 2, 2, node))
    parts = text.split("::")
    assert parts[-1] == "D4"
    # resolve the printed prefix against the document's names, the way a reader of the formula would
    sheet_names = ["S1", "S" + s2, "S" + s3]
    tables = [(0, 7), (0, 8), (1, 9), (1, 10), (2, 11)]
    if len(parts) == 1:
        matches = [7]
    elif len(parts) == 2:
        # a bare table name: the host sheet's table of that name if there is one, else any table of that name
        here = [t for s, t in tables if s == 0 and names[t] == parts[0]]
        matches = here if here else [t for s, t in tables if names[t] == parts[0]]
    else:
        assert len(parts) == 3
        matches = [t for s, t in tables if sheet_names[s] == parts[0] and names[t] == parts[1]]
    assert matches == [target]


# ------------------------------------------------------------------------------------------------ header labels
class HCell:
    def __init__(self, text):
        self.formatted_value = text


class NamedModel(Cacheable):
    """two sheets: sheet 0 holds the host table 7 and table 8, sheet 1 holds table 9. Every table is 2 rows x 2 columns with
    one header row (column labels) and no header column. The REAL ScopedNameRefCache computes the name scopes."""
    node_to_ref = _NumbersModel.node_to_ref

    def __init__(self, names, labels, rows=False, deep=False):
        from numbers_parser.xrefs import ScopedNameRefCache
        self.names = names                    # table id -> table name
        self.rows = rows                      # True: the labels are row labels (one header column, no header row)
        self.deep = deep                      # True: two header rows (columns): group headings Y / Z first, the labels last
        if rows and deep:
            self._table_data = {t: [[HCell("Y"), HCell(labels[t][0]), HCell("1")], [HCell("Z"), HCell(labels[t][1]), HCell("2")]] for t in (7, 8, 9)}
        elif rows:
            self._table_data = {t: [[HCell(labels[t][0]), HCell("1")], [HCell(labels[t][1]), HCell("2")]] for t in (7, 8, 9)}
        elif deep:
            self._table_data = {t: [[HCell("Y"), HCell("Z")], [HCell(labels[t][0]), HCell(labels[t][1])], [HCell("1"), HCell("2")]] for t in (7, 8, 9)}
        else:
            self._table_data = {t: [[HCell(labels[t][0]), HCell(labels[t][1])], [HCell("1"), HCell("2")]] for t in (7, 8, 9)}
        self.name_ref_cache = ScopedNameRefCache(self)

    def sheet_ids(self):
        return [0, 1]

    def table_ids(self, sheet_id=None):
        if sheet_id is None:
            return [7, 8, 9]
        return [7, 8] if sheet_id == 0 else [9]

    def table_names(self):
        return [self.names[t] for t in (7, 8, 9)]

    def table_name(self, table_id, value=None):
        if value is not None:
            self.names[table_id] = value
        return self.names[table_id]

    def sheet_name(self, sheet_id):
        return "S%d" % sheet_id

    def table_id_to_sheet_id(self, table_id):
        return 1 if table_id == 9 else 0

    def table_uuids_to_id(self, uuid):
        return uuid

    def num_header_rows(self, table_id):
        return 0 if self.rows else (2 if self.deep else 1)

    def num_header_cols(self, table_id):
        return (2 if self.deep else 1) if self.rows else 0

    def number_of_rows(self, table_id):
        return 3 if (self.deep and not self.rows) else 2

    def number_of_columns(self, table_id):
        return 3 if (self.deep and self.rows) else 2


def h09c_named(l70, l71, l80, l81, l90, l91, n8, n9, target, tcol, absolute, rows, deep=False):
    """a whole-column reference into another table is printed by header label when the label is unique in its table, and
    qualified with just enough of table / sheet name that - read against the document's own labels and names, narrower
    scopes shadowing wider ones - exactly one column matches: the stored one"""
    labels = {7: [l70, l71], 8: [l80, l81], 9: [l90, l91]}
    names = {7: "H", 8: "T" + n8, 9: "T" + n9}
    sheet_of = {7: 0, 8: 0, 9: 1}
    m = NamedModel(names, labels, rows, deep)
    if rows:
        node = Node(AST_row=Node(row=tcol, absolute=absolute), NOFIELD_AST_column=Node(column=0, absolute=False),
                    AST_cross_table_reference_extra_info=Node(table_id=target))
        text = str(m.node_to_ref(7, 0, 1, node))          # host cell (0, 1): relative row offsets are from row 0
    else:
        node = Node(AST_column=Node(column=tcol, absolute=absolute), NOFIELD_AST_row=Node(row=0, absolute=False),
                    AST_cross_table_reference_extra_info=Node(table_id=target))
        text = str(m.node_to_ref(7, 1, 0, node))          # host cell (1, 0): relative column offsets are from column 0
    parts = text.split("::")
    last = parts[-1]
    if rows and ":" in last:
        # numeric row reference 'n:n' (the label is not usable): both halves name the same row
        halves = last.split(":")
        assert len(halves) == 2 and halves[0] == halves[1]
        last = halves[0]
        if absolute:
            assert last[0] == "$"
            last = last[1:]
        assert last in ("1", "2")
        assert len(parts) >= 2 or target == 7
        tables = None
        if len(parts) == 2:
            here = [t for t in (7, 8, 9) if sheet_of[t] == 0 and names[t] == parts[0]]
            tables = here if here else [t for t in (7, 8, 9) if names[t] == parts[0]]
        elif len(parts) == 3:
            tables = [t for t in (7, 8, 9) if "S%d" % sheet_of[t] == parts[0] and names[t] == parts[1]]
        assert tables is not None
        assert [(t, int(last) - 1) for t in tables] == [(target, tcol)]
        return
    if absolute:
        assert last[0] == "$"
        last = last[1:]
    assert len(last) == 1
    # which tables does the prefix select?
    if len(parts) == 1:
        tables = None                         # resolved by label scope below
    elif len(parts) == 2:
        here = [t for t in (7, 8, 9) if sheet_of[t] == 0 and names[t] == parts[0]]
        tables = here if here else [t for t in (7, 8, 9) if names[t] == parts[0]]
    else:
        assert len(parts) == 3
        tables = [t for t in (7, 8, 9) if "S%d" % sheet_of[t] == parts[0] and names[t] == parts[1]]
    if "A" <= last <= "Z":
        # column letter: only meaningful with an explicit table
        assert tables is not None
        matches = [(t, ord(last) - 65) for t in tables]
    else:
        def cols(ts):
            return [(t, c) for t in ts for c in (0, 1) if labels[t][c] == last]
        if tables is not None:
            matches = cols(tables)
        else:
            matches = cols([7])                                   # the host table's own labels shadow everything
            if not matches:
                matches = cols([8])                               # then the other tables of the host sheet
            if not matches:
                matches = cols([9])                               # then the rest of the document
    assert matches == [(target, tcol)]


def resolve_label_ref(text, names, labels, sheet_of, absolute):
    """reader of a printed column reference: the list of (table, column) it can mean, narrower scopes shadowing wider"""
    parts = text.split("::")
    last = parts[-1]
    if absolute:
        assert last[0] == "$"
        last = last[1:]
    assert len(last) == 1
    if len(parts) == 1:
        tables = None
    elif len(parts) == 2:
        here = [t for t in (7, 8, 9) if sheet_of[t] == 0 and names[t] == parts[0]]
        tables = here if here else [t for t in (7, 8, 9) if names[t] == parts[0]]
    else:
        assert len(parts) == 3
        tables = [t for t in (7, 8, 9) if "S%d" % sheet_of[t] == parts[0] and names[t] == parts[1]]
    if "A" <= last <= "Z":
        assert tables is not None
        return [(t, ord(last) - 65) for t in tables]

    def cols(ts):
        return [(t, c) for t in ts for c in (0, 1) if labels[t][c] == last]
    if tables is not None:
        return cols(tables)
    matches = cols([7])
    if not matches:
        matches = cols([8])
    if not matches:
        matches = cols([9])
    return matches


def h09d_rename(l80, l81, l90, l91, n8, n9, new9, target, tcol, renamed):
    """history: a formula is read, then a table is renamed through Table.name, then the formula is read again - the second
    reading is qualified according to the names the document has NOW"""
    from numbers_parser.document import Table
    labels = {7: ["p", "q"], 8: [l80, l81], 9: [l90, l91]}
    names = {7: "H", 8: "T" + n8, 9: "T" + n9}
    sheet_of = {7: 0, 8: 0, 9: 1}
    assume(n8 != new9 or renamed != 8)
    m = NamedModel(names, labels)
    node = Node(AST_column=Node(column=tcol, absolute=False), NOFIELD_AST_row=Node(row=0, absolute=False),
                AST_cross_table_reference_extra_info=Node(table_id=target))
    first = str(m.node_to_ref(7, 1, 0, node))
    assert resolve_label_ref(first, names, labels, sheet_of, False) == [(target, tcol)]
    tbl = Table.__new__(Table)
    tbl._model = m
    tbl._table_id = renamed
    tbl.name = "T" + new9                       # the real Table.name setter
    assume(not (renamed == 8 and names[8] == "H"))            # sibling names stay unique within a sheet (C19)
    second = str(m.node_to_ref(7, 1, 0, node))
    assert resolve_label_ref(second, m.names, labels, sheet_of, False) == [(target, tcol)]


class NumbersUUIDStub:
    def __init__(self, v):
        self.hex = v


import numbers_parser.model as modelmod  # noqa: E402

ALNUM = [(65, 90), (48, 57)]
LABELS = [(97, 104)]
ROW_WINDOWS = [(0, 100), (0x7FFF - 7, 0x7FFF + 9), (0xFFFF - 7, 0xFFFF + 9)]
HARNESSES = [
    Harness("H09a-cell", h09a_cell,
            dict(row=IntDom(), col=IntDom(), srow=IntDom(), scol=IntDom(), row_abs=BoolDom(), col_abs=BoolDom()),
            bounds="host cell and stored offsets/coordinates: every int combination whose host and target lie inside the table limits "
                   "(1 000 000 x 1000); both absolute flags",
            stubs=["formula node = attribute bag; model stub: one sheet/table, no header labels"],
            outside=["uuid -> table map from real archives", "cache invalidation through Table.write (history)",
                     "header-label (named) references: ScopedNameRefCache"]),
    Harness("H09a-rect", h09a_rect,
            lambda tier: dict(row=IntDom(), col=IntDom(), rb=IntDom(), re=IntDom(), cb=IntDom(), ce=IntDom(), rb_abs=BoolDom(), re_abs=BoolDom(),
                              cb_abs=BoolDom(), ce_abs=BoolDom(),
                              row_window=Cases(ROW_WINDOWS if tier == "quick" else [(0, MAX_ROW)])),
            bounds="rectangle corners: every int combination with begin <= end inside the row windows [0,100), [32760,32776), "
                   "[65528,65544) (quick: the low rows and the rows around the 15/16-bit constants the code compares against) / all "
                   "1 000 000 rows (thorough) x 1000 columns, host anywhere in the table limits; all 16 absolute-flag combinations"),
    Harness("H09a-span", h09a_span,
            dict(row=IntDom(), col=IntDom(), b=IntDom(), e=IntDom(), b_abs=BoolDom(), e_abs=BoolDom(), rows=Cases([True, False])),
            bounds="whole-row spans (any rows inside 1 000 000) and whole-column spans (any columns inside 1000) as colon tracts with the "
                   "other axis open-ended (0x7FFFFFFF / 0x7FFF); host anywhere; all absolute-flag combinations"),
    Harness("H09a-axis", h09a_single_axis,
            dict(row=IntDom(), col=IntDom(), v=IntDom(), v_abs=BoolDom(), rows=Cases([True, False])),
            bounds="single whole-row / whole-column references (row-only / column-only nodes), relative or absolute, host anywhere"),
    Harness("H09c", h09c_named,
            dict(l70=StrDom(1, LABELS), l71=StrDom(1, LABELS), l80=StrDom(1, LABELS), l81=StrDom(1, LABELS), l90=StrDom(1, LABELS),
                 l91=StrDom(1, LABELS), n8=StrDom(1, [(120, 121)]), n9=StrDom(1, [(120, 121)]), target=Cases([8, 9]), tcol=Cases([0, 1]),
                 absolute=BoolDom(), rows=Cases([False, True]), deep=Cases([False, True])),
            bounds="3 tables (host + one on the same sheet + one on another sheet) with 2 labelled columns (or 2 labelled rows) each, one header "
                   "row / column or two (group headings above the labels); the six labels are "
                   "symbolic characters a..h (every equality pattern: unique, duplicated within a table, a sheet, the document), the two "
                   "target tables' names equal or not; target column and absolute flag symbolic",
            stubs=["model stub: table data = header cells with a formatted_value; the real ScopedNameRefCache / CellRange compute scopes "
                   "and text; NumbersUUID(...).hex identity"],
            outside=["labels containing operator characters or quotes, labels that look like A1 references"],
            patches=[(modelmod, "NumbersUUID", NumbersUUIDStub)]),
    Harness("H09d", h09d_rename,
            dict(l80=StrDom(1, LABELS), l81=StrDom(1, LABELS), l90=StrDom(1, LABELS), l91=StrDom(1, LABELS), n8=StrDom(1, [(120, 121)]),
                 n9=StrDom(1, [(120, 121)]), new9=StrDom(1, [(120, 121)]), target=Cases([8, 9]), tcol=Cases([0, 1]), renamed=Cases([8, 9])),
            bounds="as H09c (column labels of the two target tables symbolic), read - rename one of the two target tables - read again",
            stubs=["model stub as H09c; the rename goes through the real Table.name setter"],
            patches=[(modelmod, "NumbersUUID", NumbersUUIDStub)]),
    Harness("H09b", h09b_qualify,
            dict(n_host=StrDom(1, ALNUM), n_same=StrDom(1, ALNUM), n_other=StrDom(1, ALNUM), n_third=StrDom(1, ALNUM), n_fourth=StrDom(1, ALNUM), target=Cases([8, 9, 10, 11]), s2=StrDom(1, ALNUM), s3=StrDom(1, ALNUM)),
            bounds="3 sheets with 2+2+1 tables; table and sheet names carry one symbolic alphanumeric character each, so every equality pattern "
                   "(unique, duplicated across two or three sheets, shared with the host sheet) is covered",
            stubs=["NumbersUUID(...).hex and table_uuids_to_id: identity on the stub table id"],
            patches=[(modelmod, "NumbersUUID", NumbersUUIDStub)]),
]
# which prefix a reference needs depends on the set of table names: adding a table (real model.add_table) must invalidate
# the name cache - the clone harness is shared with C03
from specs import c03 as _c03   # noqa: E402

HARNESSES += [h for h in _c03.HARNESSES if h.name == "H03-clone"]
PROPERTY = "C09"
