"""C04 - cell storage records decode to exactly what was encoded, field by field."""
from datetime import timedelta
from struct import unpack

from numbers_parser.cell import (BoolCell, Cell, DateCell, DurationCell, EmptyCell, NumberCell, RichTextCell, TextCell,
                                 _unpack_decimal128)
from numbers_parser.constants import CURRENCY_CELL_TYPE, EPOCH, CellType
from numbers_parser.generated import TSTArchives_pb2 as TSTArchives

from pysym.values import as_bytes_list, mkbytes
from pysym.api import BoolDom, BVDom, BytesDom, Cases, Harness, IntDom, assume, cover, nondet_bv

# Published layout (SheetJS IWA notes, referenced by docs/Numbers.md): optional fields in ascending flag-bit order.
LAYOUT = [(0x1, 16), (0x2, 8), (0x4, 8), (0x8, 4), (0x10, 4), (0x20, 4), (0x40, 4), (0x80, 4), (0x100, 4), (0x200, 4),
          (0x400, 4), (0x800, 4), (0x1000, 4), (0x2000, 4), (0x4000, 4), (0x8000, 4), (0x10000, 4), (0x20000, 4),
          (0x40000, 4), (0x80000, 4), (0x100000, 4)]
FIELDS = {0x8: "_string_id", 0x10: "_rich_id", 0x20: "_cell_style_id", 0x40: "_text_style_id", 0x200: "_formula_id",
          0x400: "_control_id", 0x1000: "_suggest_id", 0x2000: "_num_format_id", 0x4000: "_currency_format_id",
          0x8000: "_date_format_id", 0x10000: "_duration_format_id", 0x20000: "_text_format_id",
          0x40000: "_bool_format_id"}
NBYTES = 12 + 16 + 8 + 8 + 4 * 18


class StubMerge:
    def get(self, rc):
        return None


class StubModel:
    def __init__(self):
        self.keys = []

    def merge_cells(self, table_id):
        return StubMerge()

    def table_string(self, table_id, key):
        return ("str", key)

    def table_string_key(self, table_id, value):
        k = nondet_bv("string-key", 31)
        self.keys.append((value, k))
        return k

    def table_rich_text(self, table_id, key):
        return {"text": ("rich", key), "bullets": [], "hyperlinks": [], "bulleted": False}


# ------------------------------------------------------------------------------------------------ H04a
def h04a_decode_vs_layout(buffer, cell_type, max_fields):
    buffer = bytes([5, cell_type]) + buffer[2:]
    flags = unpack("<i", buffer[8:12])[0]
    cnt = 0
    for i in range(21):
        cnt += (flags >> i) & 1
    assume(cnt <= max_fields or flags == 0x1FFFFF)
    # a record of a kind that needs a payload carries it (records without it are malformed, not in scope)
    if cell_type == TSTArchives.dateCellType:
        assume(flags & 0x4 != 0)
        secs = unpack("<d", buffer[12 + (16 if flags & 1 else 0) + (8 if flags & 2 else 0):][:8])[0]
        assume(secs == secs and -1.0e9 < secs < 1.0e9)
    if cell_type in (TSTArchives.boolCellType, TSTArchives.durationCellType):
        assume(flags & 0x2 != 0)
        dbl = unpack("<d", buffer[12 + (16 if flags & 1 else 0):][:8])[0]
        assume(dbl == dbl and -1.0e9 < dbl < 1.0e9)
    if flags & 1:
        assume(buffer[27] & 0x7F == 48)   # decimal128 exponent in [-32, 95]: the value is a finite float

    cell = Cell._from_storage(7, 3, 4, buffer, StubModel())

    off = 12
    for bit, size in LAYOUT:
        if flags & bit:
            if bit in FIELDS:
                want = unpack("<i", buffer[off:off + 4])[0]
                assert getattr(cell, FIELDS[bit]) == want
            elif bit == 0x1:
                assert cell._d128 == _unpack_decimal128(buffer[off:off + 16])
            elif bit == 0x2:
                assert cell._double == unpack("<d", buffer[off:off + 8])[0] or cell._double != cell._double
            elif bit == 0x4:
                assert cell._seconds == unpack("<d", buffer[off:off + 8])[0] or cell._seconds != cell._seconds
            off += size
        else:
            if bit in FIELDS:
                assert getattr(cell, FIELDS[bit]) is None
            elif bit == 0x1:
                assert cell._d128 is None
            elif bit == 0x2:
                assert cell._double is None
            elif bit == 0x4:
                assert cell._seconds is None
    assert cell.row == 3 and cell.col == 4
    kinds = {TSTArchives.genericCellType: "EmptyCell", TSTArchives.numberCellType: "NumberCell",
             TSTArchives.textCellType: "TextCell", TSTArchives.dateCellType: "DateCell",
             TSTArchives.boolCellType: "BoolCell", TSTArchives.durationCellType: "DurationCell",
             TSTArchives.formulaErrorCellType: "ErrorCell", TSTArchives.automaticCellType: "RichTextCell",
             CURRENCY_CELL_TYPE: "NumberCell"}
    assert type(cell).__name__ == kinds[cell_type]
    if cell_type == TSTArchives.textCellType:
        assert cell.value == ("str", cell._string_id)
    if cell_type == TSTArchives.automaticCellType:
        assert cell.value == ("rich", cell._rich_id)


# ------------------------------------------------------------------------------------------------ H04b
OPTIONAL = ["_rich_id", "_cell_style_id", "_text_style_id", "_formula_id", "_control_id", "_suggest_id",
            "_num_format_id", "_currency_format_id", "_date_format_id", "_duration_format_id", "_text_format_id",
            "_bool_format_id"]
OPT_BITS = [0x10, 0x20, 0x40, 0x200, 0x400, 0x1000, 0x2000, 0x4000, 0x8000, 0x10000, 0x20000, 0x40000]
BYTE6 = {"_num_format_id": 1, "_currency_format_id": 2, "_duration_format_id": 4, "_date_format_id": 8,
         "_bool_format_id": 0x20}


def make_cell(kind, model, bval, secs):
    if kind == "number":
        cell = NumberCell(1, 2, 42.5)
    elif kind == "currency":
        cell = NumberCell(1, 2, 1234.25, cell_type=CellType.CURRENCY)
    elif kind == "text":
        cell = TextCell(1, 2, "some text")
    elif kind == "date":
        cell = DateCell(1, 2, EPOCH + timedelta(seconds=secs))
    elif kind == "bool":
        cell = BoolCell(1, 2, bval)
    elif kind == "duration":
        cell = DurationCell(1, 2, timedelta(seconds=secs))
    elif kind == "empty":
        cell = EmptyCell(1, 2)
    else:
        cell = RichTextCell(1, 2, {"text": "rich", "bullets": [], "hyperlinks": [], "bulleted": False})
    cell._model = model
    cell._table_id = 7
    return cell


def h04b_roundtrip(kind, present, ids, bval, secs, max_fields):
    """decode(encode(cell)) gives back the kind, payload and every optional id; nothing shifted"""
    n = 0
    for p in present:
        n += int(p)
    assume(n <= max_fields or n == 12)
    if kind == "rich":
        assume(present[0])          # a rich-text cell always carries its rich-text id
    model = StubModel()
    cell = make_cell(kind, model, bval, secs)
    for i in range(12):
        if present[i]:
            setattr(cell, OPTIONAL[i], ids[i])
    buf = cell._to_buffer()

    # shape (H04c): 12-byte header + payload + 4 bytes per optional field, flags == presence set
    flags = unpack("<i", buf[8:12])[0]
    payload = {"number": (1, 16), "currency": (1, 16), "text": (8, 4), "date": (4, 8), "bool": (2, 8),
               "duration": (2, 8), "empty": (0, 0), "rich": (0, 0)}[kind]
    want_flags = payload[0]
    want_len = 12 + payload[1]
    b6 = 0
    for i in range(12):
        if present[i]:
            want_flags |= OPT_BITS[i]
            want_len += 4
            b6 |= BYTE6.get(OPTIONAL[i], 0)
    assert flags == want_flags
    assert len(buf) == want_len
    assert len(buf) % 4 == 0
    assert buf[0] == 5
    assert buf[6] & 0x3F == b6

    cell2 = Cell._from_storage(7, 1, 2, buf, model)
    assert type(cell2) is type(cell)
    assert cell2._type == cell._type
    for i in range(12):
        if present[i]:
            assert getattr(cell2, OPTIONAL[i]) == ids[i]
        else:
            assert getattr(cell2, OPTIONAL[i]) is None
    if kind == "text":
        assert cell2._string_id == model.keys[0][1]
        assert cell2.value == ("str", model.keys[0][1])
    elif kind in ("number", "currency"):
        assert cell2.value == cell.value
    elif kind in ("date", "duration", "bool"):
        assert cell2.value == cell.value
    elif kind == "rich":
        assert cell2.value == ("rich", ids[0])
    # a second encode of the decoded cell reproduces the record byte for byte
    if kind not in ("text", "rich"):
        assert cell2._to_buffer() == buf


KINDS = ["number", "currency", "text", "date", "bool", "duration", "empty", "rich"]
CELL_TYPES = [TSTArchives.genericCellType, TSTArchives.numberCellType, TSTArchives.textCellType,
              TSTArchives.dateCellType, TSTArchives.boolCellType, TSTArchives.durationCellType,
              TSTArchives.formulaErrorCellType, TSTArchives.automaticCellType, CURRENCY_CELL_TYPE]


class ListDom:
    """list of n values of a domain"""

    def __init__(self, n, dom):
        self.n, self.dom = n, dom

    def make(self, eng, name):
        return [self.dom.make(eng, f"{name}[{i}]") for i in range(self.n)]

    def describe(self):
        return f"[{self.dom.describe()}] * {self.n}"


def _h04a_inputs(tier):
    fixed = {0: 5, 11: 0}
    return dict(buffer=BytesDom(NBYTES, fixed=fixed), cell_type=Cases(CELL_TYPES), max_fields=Cases([3 if tier == "quick" else 4]))


def _fix_type(buffer, cell_type):
    return buffer


HARNESSES = [
    Harness("H04a", h04a_decode_vs_layout, _h04a_inputs,
            bounds="116 symbolic record bytes (version 5); cell type one of the 9 readable kinds; flags = any subset of "
                   "the 21 documented bits with <= 3 (quick) / <= 4 (thorough) fields present, plus the all-ones word",
            outside=["flag words with more optional fields present than the bound (except all 21)",
                     "decimal128 exponents outside [-32, 95] and non-finite / huge date and duration payloads"],
            stubs=["model stub: merge_cells / table_string / table_rich_text return tagged keys",
                   "_unpack_decimal128 replaced by an uninterpreted function of its 16 bytes (its arithmetic is C01's subject)"],
            models={_unpack_decimal128: lambda eng, buf: ("d128", mkbytes(list(as_bytes_list(buf))))}),
    Harness("H04b", h04b_roundtrip,
            lambda tier: dict(kind=Cases(KINDS), present=ListDom(12, BoolDom()), ids=ListDom(12, BVDom(32, signed=True, lo=-2 ** 31, hi=2 ** 31 - 1)),
                              bval=BoolDom(), secs=IntDom(-10 ** 9, 10 ** 9), max_fields=Cases([2 if tier == "quick" else 12])),
            bounds="8 storable kinds x presence subsets of the 12 optional ids (<= 2 present or all 12: quick; all 4096: thorough) "
                   "x symbolic signed 32-bit ids x bool / whole-second date & duration payloads",
            outside=["numeric payload values (C01)", "sub-second dates/durations (shared H01-date-us / H01-dur-us)"],
            stubs=["model stub: table_string_key returns an arbitrary 31-bit key; table_string/table_rich_text echo the key"]),
]
# "the same payload": sub-second date and duration payloads through the real _to_buffer / _from_storage - harnesses shared
# with C01 (H04b keeps to whole seconds)
from specs import c01 as _c01   # noqa: E402

HARNESSES += [h for h in _c01.HARNESSES if h.name in ("H01-date-us", "H01-dur-us")]
PROPERTY = "C04"
