"""C14 - displayed dates and durations agree with the stored value."""
from datetime import datetime

import numbers_parser.cell as cellmod
from numbers_parser.cell import Cell, DurationCell, _decode_date_format, _decode_date_format_field
from numbers_parser.constants import DurationStyle, DurationUnits

from pysym.api import BoolDom, Cases, Harness, IntDom, StrDom, assume, concretize, cover

NUMERIC = ["HH", "H", "hh", "h", "k", "kk", "K", "KK", "mm", "m", "ss", "s", "d", "dd", "M", "MM", "yyyy", "yy", "y",
           "DDD", "DD", "D", "S", "SS", "SSS", "SSSS", "SSSSS", "a", "F", "W", "ww"]
NAMED = ["EEEE", "EEE", "MMMM", "MMM"]
WEEKDAY_NAMES = ["Monday", "Tuesday", "Wednesday", "Thursday", "Friday", "Saturday", "Sunday"]
MONTH_NAMES = ["January", "February", "March", "April", "May", "June", "July", "August", "September", "October",
               "November", "December"]
TIME_ONLY = ["HH", "H", "hh", "h", "k", "kk", "K", "KK", "mm", "m", "ss", "s", "S", "SS", "SSS", "SSSS", "SSSSS", "a"]
DIM = [31, 28, 31, 30, 31, 30, 31, 31, 30, 31, 30, 31]


def h14a_directive(field, year, month, day, hour, minute, second, micro):
    """each numeric directive renders its calendar/clock field in the documented range and padding"""
    assume(1000 <= year <= 9999 and 1 <= month <= 12 and 1 <= day <= 31)
    assume(0 <= hour <= 23 and 0 <= minute <= 59 and 0 <= second <= 59 and 0 <= micro <= 999999)
    if field in TIME_ONLY:
        # the directive reads clock fields only: one representative date, all clock values
        year, month, day = 2024, 2, 3
    else:
        hour, minute, second, micro = 4, 5, 6, 7
        month = concretize(month)
        is_leap = year % 4 == 0 and (year % 100 != 0 or year % 400 == 0)
        assume(day <= DIM[month - 1] + (1 if (is_leap and month == 2) else 0))      # a valid calendar date
    value = datetime(year, month, day, hour, minute, second, micro)
    text = _decode_date_format_field(field, value)
    if field == "a":
        assert text == ("am" if hour < 12 else "pm")
        return
    if field in NAMED:
        # English names (the C locale numbers-parser formats in); weekday from the textbook day count
        ym0 = year - 1
        leap0 = year % 4 == 0 and (year % 100 != 0 or year % 400 == 0)
        yday0 = sum(DIM[:month - 1]) + day + (1 if (leap0 and month > 2) else 0)
        wd = (365 * ym0 + ym0 // 4 - ym0 // 100 + ym0 // 400 + yday0 - 1) % 7
        if field == "MMMM":
            assert text == MONTH_NAMES[month - 1]
        elif field == "MMM":
            assert text == MONTH_NAMES[month - 1][:3]
        else:
            for k in range(7):
                if wd == k:
                    assert text == (WEEKDAY_NAMES[k] if field == "EEEE" else WEEKDAY_NAMES[k][:3])
        return
    for ch in text:
        assert "0" <= ch <= "9"
    n = int(text)
    h12 = hour % 12
    leap = year % 4 == 0 and (year % 100 != 0 or year % 400 == 0)
    yday = sum(DIM[:month - 1]) + day + (1 if (leap and month > 2) else 0)
    # proleptic Gregorian ordinal by the textbook year count (independent of the engine's era-based calendar model)
    ym = year - 1
    jan1_wd = (365 * ym + ym // 4 - ym // 100 + ym // 400) % 7          # weekday of 1 January, Monday = 0
    wd1 = (jan1_wd + yday - day) % 7                                     # weekday of the 1st of this month
    first_monday = (7 - jan1_wd) % 7                                     # 0-based day of year of the first Monday
    want = {"W": (day + wd1 - 1) // 7,      # Monday-based week of the month, the week holding the 1st is week 0
            "ww": 0 if yday - 1 < first_monday else (yday - 1 - first_monday) // 7 + 1,
            "HH": hour, "H": hour, "hh": 12 if h12 == 0 else h12, "h": 12 if h12 == 0 else h12,
            "k": 24 if hour == 0 else hour, "kk": 24 if hour == 0 else hour, "K": h12, "KK": h12,
            "mm": minute, "m": minute, "ss": second, "s": second, "d": day, "dd": day, "M": month, "MM": month,
            "yyyy": year, "yy": year % 100, "DDD": yday, "DD": yday, "D": yday,
            "F": (day - 1) // 7 + 1}        # how many times this weekday has occurred in the month so far
    width = {"HH": 2, "hh": 2, "kk": 2, "KK": 2, "mm": 2, "ss": 2, "dd": 2, "MM": 2, "yy": 2, "yyyy": 4, "DDD": 3, "DD": 2, "ww": 2}
    if field in want:
        assert n == want[field]
        if field in width:
            assert len(text) == (width[field] if n < 10 ** width[field] else len(str(n)))
            assert len(text) >= width[field]
        else:
            assert text == str(n)         # no padding
    elif field == "y":
        assert n == year or n == year % 100      # documented "without century"; Numbers prints the full year
    else:
        # S..SSSSS: seconds to n decimal places = leading digits of the microseconds
        k = len(field)
        assert len(text) == k
        assert n == micro // 10 ** (6 - k)


def fake_field(field, value):
    return "<" + field + ">"


def reference_scan(fmt):
    out = ""
    field = ""
    in_string = False
    i = 0
    n = len(fmt)
    while i < n:
        c = fmt[i]
        if c == "'":
            if i + 1 >= n:
                break
            if fmt[i + 1] == "'":
                out += "'"
                i += 2
                continue
            if in_string:
                in_string = False
            else:
                in_string = True
                if field:
                    out += "<" + field + ">"
                    field = ""
            i += 1
        elif in_string:
            out += c
            i += 1
        elif c.isalpha():
            field += c
            i += 1
        else:
            if field:
                out += "<" + field + ">"
                field = ""
            out += c
            i += 1
    if field:
        out += "<" + field + ">"
    return out


def h14b_scanner(fmt):
    """letter runs are directives, everything else is literal, '...' is quoted text, '' is a quote; the output is the
    concatenation of the parts in order"""
    got = _decode_date_format(fmt, datetime(2024, 2, 3, 4, 5, 6))
    assert got == reference_scan(fmt)


# ------------------------------------------------------------------------------------------------ durations
class Rec:
    def __init__(self, **kw):
        self.__dict__.update(kw)


class FmtModel:
    def __init__(self, fmt):
        self.fmt = fmt

    def table_format(self, table_id, key):
        return self.fmt


UNIT_SECONDS = {DurationUnits.WEEK: 604800, DurationUnits.DAY: 86400, DurationUnits.HOUR: 3600, DurationUnits.MINUTE: 60,
                DurationUnits.SECOND: 1}
UNITS = [DurationUnits.WEEK, DurationUnits.DAY, DurationUnits.HOUR, DurationUnits.MINUTE, DurationUnits.SECOND]


def h14c_duration(seconds, largest, smallest, style, auto):
    """a displayed whole-second duration, read back unit by unit, equals the duration truncated to the smallest unit"""
    assume(largest <= smallest)                       # WEEK=1 ... SECOND=16: larger units have smaller codes
    assume(0 <= seconds)
    cell = DurationCell.__new__(DurationCell)
    cell.row = 0
    cell.col = 0
    cell._table_id = 7
    cell._duration_format_id = 1
    cell._double = float(seconds)
    cell._model = FmtModel(Rec(duration_style=style, duration_unit_largest=largest, duration_unit_smallest=smallest,
                               use_automatic_duration_units=auto))
    text = cell._duration_format()
    # read back: numbers in order of appearance are the components, largest unit first
    nums = []
    cur = ""
    for ch in text:
        if "0" <= ch <= "9":
            cur += ch
        else:
            if cur:
                nums.append(int(cur))
            cur = ""
    if cur:
        nums.append(int(cur))
    if auto:
        cover("auto-units")
        total = 0
        assert len(nums) >= 1
        return
    shown = [u for u in UNITS if largest <= u <= smallest]
    assert len(nums) == len(shown)
    total = 0
    for v, u in zip(nums, shown):
        total += v * UNIT_SECONDS[u]
    small = UNIT_SECONDS[shown[-1]]
    assert total == (seconds // small) * small
    for v, u in zip(nums[1:], shown[1:]):
        prev = shown[shown.index(u) - 1]
        assert v * UNIT_SECONDS[u] < UNIT_SECONDS[prev]


UNITS_MS = UNITS + [DurationUnits.MILLISECOND]
UNIT_MS = {DurationUnits.WEEK: 604800000, DurationUnits.DAY: 86400000, DurationUnits.HOUR: 3600000, DurationUnits.MINUTE: 60000,
           DurationUnits.SECOND: 1000, DurationUnits.MILLISECOND: 1}


def digits_of(text):
    nums = []
    cur = ""
    for ch in text:
        if "0" <= ch <= "9":
            cur += ch
        else:
            if cur:
                nums.append(int(cur))
            cur = ""
    if cur:
        nums.append(int(cur))
    return nums


def h14c_ms(ms, largest, smallest, style, auto, window=None):
    """durations at millisecond resolution: the displayed components, read back unit by unit, give the duration truncated
    to the smallest unit shown; with automatic units nothing is cut off"""
    assume(largest <= smallest)
    assume(0 <= ms)
    if window is not None:
        assume(window[0] <= ms <= window[1])
    cell = DurationCell.__new__(DurationCell)
    cell.row = 0
    cell.col = 0
    cell._table_id = 7
    cell._duration_format_id = 1
    cell._double = ms / 1000
    cell._model = FmtModel(Rec(duration_style=style, duration_unit_largest=largest, duration_unit_smallest=smallest,
                               use_automatic_duration_units=auto))
    text = cell._duration_format()
    nums = digits_of(text)
    if auto:
        # automatic units: the largest unit is the biggest one the value reaches (0 displays in days); the run of units
        # shown must be long enough that nothing is cut off
        if ms == 0:
            big = DurationUnits.DAY
        else:
            big = DurationUnits.MILLISECOND
            for u in UNITS_MS:
                if ms >= UNIT_MS[u]:
                    big = u
                    break
        # how many units follow is the code's choice (for an exact number of weeks it falls back on the format's stored
        # smallest unit and may print trailing zero components): the property only asks that nothing is cut off
        assert 1 <= len(nums) <= len(UNITS_MS) - UNITS_MS.index(big)
        shown = UNITS_MS[UNITS_MS.index(big): UNITS_MS.index(big) + len(nums)]
        cover("auto-units")
    else:
        shown = [u for u in UNITS_MS if largest <= u <= smallest]
    assert len(nums) == len(shown)
    total = 0
    for v, u in zip(nums, shown):
        total += v * UNIT_MS[u]
    cut = UNIT_MS[shown[-1]]
    assert total == (ms // cut) * cut
    if auto:
        assert total == ms
    for v, u in zip(nums[1:], shown[1:]):
        prev = shown[shown.index(u) - 1]
        assert v * UNIT_MS[u] < UNIT_MS[prev]
    # style decorations
    if style == int(DurationStyle.COMPACT) and shown[-1] == DurationUnits.MILLISECOND and len(shown) > 1:
        assert text[-4] == "." and len(text.split(".")[-1]) == 3


MS_MAX = 315576000000 + 5000       # 10 years
WEEK_MS = 604800000
# thorough tier: everything up to 10^7 ms, and windows of +-2 s around one week, two weeks and ten years
MS_WINDOWS = [(0, 10 ** 7), (WEEK_MS - 2000, WEEK_MS + 2000), (2 * WEEK_MS - 2000, 2 * WEEK_MS + 2000),
              (315576000000 - 2000, 315576000000 + 2000)]
UCODES = [int(u) for u in UNITS]
UCODES_MS = [int(u) for u in UNITS_MS]


def _scan(n):
    return Harness(f"H14b-n{n}", h14b_scanner, dict(fmt=StrDom(n)),
                   bounds=f"every format string of exactly {n} Unicode scalar values",
                   stubs=["_decode_date_format_field replaced by a marker function <field> (field rendering is H14a's subject)"],
                   patches=[(cellmod, "_decode_date_format_field", fake_field)])


def tag_date(self):
    return "DATE"


def tag_duration(self):
    return "DURATION"


def h14d_dispatch(secs, is_date):
    """a date (duration) cell read from a document that carries a date (duration) format is displayed through that format,
    whatever its stored value - the epoch instant and the zero duration included"""
    from numbers_parser.cell import DateCell
    cell = DateCell.__new__(DateCell) if is_date else DurationCell.__new__(DurationCell)
    cell._duration_format_id = None if is_date else 3
    cell._date_format_id = 3 if is_date else None
    cell._text_format_id = cell._num_format_id = cell._currency_format_id = cell._bool_format_id = None
    cell._seconds = secs if is_date else None
    cell._double = None if is_date else secs
    cell._value = None
    assert cell.formatted_value == ("DATE" if is_date else "DURATION")


HARNESSES = [
    Harness("H14d", h14d_dispatch, dict(secs=IntDom(-10 ** 10, 10 ** 10), is_date=BoolDom()),
            bounds="stored seconds any integer within +-10^10 (symbolic, zero included), date and duration cells",
            stubs=["Cell._date_format / Cell._duration_format replaced by tags (their output is H14a / H14c's subject)"],
            patches=[(Cell, "_date_format", tag_date), (Cell, "_duration_format", tag_duration)]),
    Harness("H14a", h14a_directive,
            dict(field=Cases(NUMERIC + NAMED), year=IntDom(), month=IntDom(), day=IntDom(), hour=IntDom(), minute=IntDom(), second=IntDom(),
                 micro=IntDom()),
            bounds="clock directives x all hours, minutes, seconds, microseconds; calendar directives x all valid dates of years 1000..9999 (symbolic)",
            outside=["G", "locales other than C / English",
                     "years < 1000 (platform-dependent %Y padding)"],
            stubs=["datetime model: exact integer calendar arithmetic; strftime per the C standard in the C locale"]),
    _scan(0), _scan(1), _scan(2), _scan(3), _scan(4),
    Harness("H14c", h14c_duration,
            lambda tier: dict(seconds=IntDom(0, 2 ** 15 if tier == "quick" else 2 ** 24), largest=Cases(UCODES), smallest=Cases(UCODES),
                              style=Cases([int(DurationStyle.COMPACT), int(DurationStyle.SHORT), int(DurationStyle.LONG)]), auto=Cases([False])),
            bounds="whole-second durations 0..2^15 s (quick) / 0..2^24 s (thorough, 194 days); all unit pairs WEEK..SECOND; three styles",
            outside=["millisecond unit and sub-second durations (float products)", "automatic units", "durations beyond the bound"],
            stubs=["int(d / k): lemma cut trunc(fp(a)/k) == a div k for k in {604800, 86400, 3600, 60}", "format archive = attribute bag"]),
]
HARNESSES.append(
    Harness("H14c-ms", h14c_ms,
            lambda tier: dict(ms=IntDom(0, 10 ** 7 if tier == "quick" else MS_MAX), window=Cases([None] if tier == "quick" else MS_WINDOWS),
                              largest=Cases([1, 4, 16, 32] if tier == "quick" else UCODES_MS),
                              smallest=Cases([16, 32] if tier == "quick" else UCODES_MS),
                              style=Cases([int(DurationStyle.COMPACT), int(DurationStyle.SHORT), int(DurationStyle.LONG)]),
                              auto=Cases([False, True])),
            bounds="durations at millisecond resolution 0..10^7 ms (quick) / 0..10 years (thorough); unit pairs "
                   "{WEEK,HOUR,SECOND,MILLISECOND} x {SECOND,MILLISECOND} (quick) / all 21 pairs WEEK..MILLISECOND (thorough); "
                   "three styles; fixed and automatic units",
            outside=["durations that are not a whole number of milliseconds", "negative durations"],
            stubs=["binary64 arithmetic (d / k, d -= k * n, 1000 * d, d % k) encoded as the IEEE-754 round-to-nearest error "
                   "enclosure over linear real/integer arithmetic (sound over-approximation); int() / round() exact on it",
                   "format archive = attribute bag"]))
TIER_HARNESSES = {"quick": ["H14d", "H14a", "H14b-n0", "H14b-n1", "H14b-n2", "H14b-n3", "H14c", "H14c-ms"],
                  "thorough": ["H14d", "H14a", "H14b-n0", "H14b-n1", "H14b-n2", "H14b-n3", "H14b-n4", "H14c", "H14c-ms"]}
PROPERTY = "C14"
