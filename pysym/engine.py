"""pysym: replay-based symbolic interpreter over the ASTs of real Python functions (z3 back end)."""
import ast
import builtins
import contextlib
import dataclasses
import functools
import hashlib
import inspect
import os
import sys
import textwrap
import time
import types

import z3

from . import api
from .ops import OpsMixin, _find_in_mro
from .values import (SymDT, SymTD, LazyStr, NativeTouch, Opaque, PathAbort, SolverUnknown, Sym, SymBool, SymBV, SymBytes,
                     SymFloat, SymInt, SymStr, Unsupported, as_bytes_list, chars, deep_sym, is_sym, mkbool, mkbv,
                     mkbytes, mkint, mkstr, zbool, zint)


class _Return(BaseException):
    def __init__(self, v):
        self.v = v


class _Break(BaseException):
    pass


class _Continue(BaseException):
    pass


class Violation(BaseException):
    """raised internally to unwind a path whose assertion cannot hold"""


INTERNAL = (_Return, _Break, _Continue, PathAbort, Unsupported, SolverUnknown, Violation, z3.Z3Exception, NativeTouch)
INTERP_PREFIXES = ("numbers_parser", "specs")


class Engine(OpsMixin):
    def __init__(self, loop_bound=300, solver_timeout_ms=60000):
        self.solver = z3.Solver()
        self.solver.set("timeout", solver_timeout_ms)
        self.solver_timeout_ms = solver_timeout_ms
        self.real_mode = False
        self.fresh_solver = None
        self.loop_bound = loop_bound
        self.ast_cache = {}
        self.func_hashes = {}
        self.stats = dict(paths=0, aborted=0, decisions=0, checks=0, solver_s=0.0, assert_queries=0, assert_unsat=0,
                          assert_s=0.0, lemma_s=0.0)
        self.models = {}
        self.violations = []     # dicts
        self.sites_reached = {}  # site -> count
        self.extra_interp = set()
        self.crosscheck_every = 0
        self.known = []          # known-finding entries (dicts) that apply to the current harness
        self.witness_cap = 10 ** 9
        Closure.engine = self
        api._ENGINE = self
        from . import models as _m
        _m.install(self)

    # ======================================================================= exploration
    _MUTATORS = frozenset(["append", "extend", "insert", "pop", "remove", "clear", "sort", "reverse", "update", "setdefault",
                           "popitem", "add", "discard", "difference_update", "intersection_update",
                           "symmetric_difference_update", "appendleft", "extendleft", "popleft", "rotate", "move_to_end",
                           "__setitem__", "__delitem__", "__iadd__", "__ior__", "__imul__"])
    _MISSING = object()

    def journal(self, obj):
        """first in-place change of a container on this path: remember its contents. Everything is put back when the
        path ends, so that objects that outlive a path (module globals, class attributes) start every path as they
        were after import - paths stay independent of each other"""
        j = self.__dict__.setdefault("_journal", {})
        k = id(obj)
        if k in j:
            return
        if isinstance(obj, list):
            j[k] = (obj, list(obj))
        elif isinstance(obj, dict):
            j[k] = (obj, list(obj.items()))
        elif isinstance(obj, set):
            j[k] = (obj, set(obj))
        elif isinstance(obj, bytearray):
            j[k] = (obj, bytes(obj))
        elif type(obj).__name__ == "deque":
            j[k] = (obj, list(obj))

    def journal_attr(self, obj, name):
        j = self.__dict__.setdefault("_journal_attrs", {})
        k = (id(obj), name)
        if k not in j:
            j[k] = (obj, name, obj.__dict__.get(name, self._MISSING))

    def rollback(self):
        j = self.__dict__.get("_journal")
        if j:
            for obj, snap in reversed(list(j.values())):
                try:
                    if isinstance(obj, list):
                        obj[:] = snap
                    elif isinstance(obj, dict):
                        dict.clear(obj)
                        for k, v in snap:
                            dict.__setitem__(obj, k, v)
                    elif isinstance(obj, set):
                        obj.clear()
                        obj.update(snap)
                    elif isinstance(obj, bytearray):
                        obj[:] = snap
                    else:
                        obj.clear()
                        obj.extend(snap)
                except Exception:
                    pass
            j.clear()
        ja = self.__dict__.get("_journal_attrs")
        if ja:
            for obj, name, old in reversed(list(ja.values())):
                try:
                    if old is self._MISSING:
                        if name in obj.__dict__:
                            delattr(obj, name)
                    else:
                        setattr(obj, name, old)
                except Exception:
                    pass
            ja.clear()

    def start_path(self, prefix):
        self.rollback()
        self.decisions = list(prefix)
        self.pos = 0
        self.solver.reset()
        self.model = None
        self.pc = []
        self.symdicts = {}
        self.symsets = {}
        self.divmod_cache = {}
        self.fp_origin = {}
        self.fp_pack_cache = {}
        self.rn_cache = {}
        self.var_bounds = {}
        self.ib_memo = {}
        self.ideal_of = {}
        self.path_model_nondet = False
        self.keep = []
        self.defs = {}
        self.real_mode = False
        self.fresh_solver = None
        self.fresh_n = 0
        self.nondet_n = {}
        self.inputs = {}       # name -> (kind, sym/terms) for model extraction
        self.path_violated = []

    def explore(self, run_path, prefixes, budget_paths=None, budget_s=None, on_path=None, on_unknown=None):
        """run_path(engine) executes the harness once. Returns leftover prefixes when a budget is hit."""
        self.pending = [list(p) for p in prefixes]
        t0 = time.time()
        n = 0
        self.unknown_paths = []
        while self.pending:
            if (budget_paths and n >= budget_paths) or (budget_s and time.time() - t0 > budget_s):
                break
            prefix = self.pending.pop()
            self.start_path(prefix)
            outcome = None
            try:
                run_path(self)
                outcome = ("ok", None)
            except PathAbort:
                self.stats["aborted"] += 1
                continue
            except Violation as v:
                outcome = ("violation", v.args[0])
            except SolverUnknown as e:
                # one undecided path does not end the exploration: its path condition is handed to the candidate search,
                # the other paths are still explored, the harness stays inconclusive (at most 3 such paths, then stop)
                if on_unknown is None or len(self.unknown_paths) >= 3:
                    raise
                self.unknown_paths.append(str(e))
                on_unknown(self, e)
                self.stats["paths"] += 1
                n += 1
                continue
            except (Unsupported, _Return, _Break, _Continue, z3.Z3Exception):
                raise
            except RecursionError:
                raise Unsupported("recursion limit")
            except Exception as e:  # escaped from the harness
                pass
                if os.environ.get("PYSYM_TRACE"):
                    import traceback
                    traceback.print_exc()
                site = "escaped:" + type(e).__name__
                self.sites_reached[site] = self.sites_reached.get(site, 0) + 1
                self.record_violation(site, None, exc=e)
                outcome = ("escaped", type(e).__name__)
            self.stats["paths"] += 1
            n += 1
            self.rollback()
            if on_path is not None:
                on_path(self, outcome)
        self.rollback()
        left = self.pending
        self.pending = []
        return left

    # ----------------------------------------------------------------------- solver plumbing
    def check(self, *extra):
        t0 = time.time()
        if self.real_mode:
            # mixed integer/real enclosure constraints: a fresh solver per query (with preprocessing) is orders of
            # magnitude faster than the long-lived incremental one
            # (mini-portfolio: these queries are search-luck sensitive; measured on 43 slow ones: default 206 s,
            # eager_eq_axioms=false 10 s, phase_selection=5 16 s)
            budget = self.solver_timeout_ms
            for cfg, ms in (({"smt.arith.eager_eq_axioms": False}, 8000),
                            ({"smt.arith.eager_eq_axioms": False, "smt.phase_selection": 5}, 15000),
                            ({"smt.arith.eager_eq_axioms": False, "smt.random_seed": 3}, None)):
                fs = z3.Solver()
                ms = min(ms, budget) if ms is not None else budget
                fs.set("timeout", max(1000, ms))
                for k, v in cfg.items():
                    fs.set(k, v)
                fs.add(*self.pc)
                fs.add(*extra)
                r = fs.check()
                self.fresh_solver = fs
                budget -= ms
                if r != z3.unknown or budget <= 0:
                    break
        else:
            r = self.solver.check(*extra)
        self.stats["solver_s"] += time.time() - t0
        if os.environ.get("PYSYM_CHECKLOG"):
            with open(os.environ["PYSYM_CHECKLOG"], "a") as f:
                f.write("%.3f %s %d %s\n" % (time.time() - t0, r, len(self.pc), " | ".join(str(e)[:150].replace("\n", " ") for e in extra)))
        if time.time() - t0 > 2:
            if os.environ.get("PYSYM_SLOW"):
                n = self.__dict__.setdefault("slow_n", 0)
                self.slow_n = n + 1
                with open(os.environ["PYSYM_SLOW"] + ".%d.smt2" % n, "w") as f:
                    f.write("; %.1fs %s\n" % (time.time() - t0, r))
                    f.write(self.solver.sexpr())
                    for e in extra:
                        f.write("\n(assert %s)" % e.sexpr())
                    f.write("\n(check-sat)\n")
        self.stats["checks"] += 1
        if r == z3.unknown:
            if os.environ.get("PYSYM_DUMP"):
                with open(os.environ["PYSYM_DUMP"], "w") as f:
                    f.write(self.solver.sexpr())
                    for e in extra:
                        f.write("\n(assert %s)" % e.sexpr())
                    f.write("\n(check-sat)\n")
            raise SolverUnknown((self.fresh_solver if self.real_mode else self.solver).reason_unknown())
        return r

    def crosscheck(self, extra):
        """second solver: every crosscheck_every-th `unsat` assertion query is written as SMT-LIB2 and re-decided by the
        cvc5 binary. cvc5 saying `sat` is a disagreement (the run becomes inconclusive); `unknown`, a time-out or a parse
        error are counted as undecided, never as agreement."""
        import subprocess
        import tempfile
        self.cc_seen = getattr(self, "cc_seen", 0) + 1
        if self.cc_seen % self.crosscheck_every != 1 and self.crosscheck_every != 1:
            return
        st = self.stats
        fs = z3.Solver()
        fs.add(*self.pc)
        fs.add(extra)
        text = fs.sexpr().replace("bv2int", "bv2nat")
        import re as _re
        for nm in set(_re.findall(r"\(declare-fun ([A-Za-z_][A-Za-z0-9_]*) ", text)) & {
                "exists", "forall", "let", "par", "assert", "match", "as", "push", "pop", "exit", "define", "declare"}:
            text = _re.sub(r"(?<![A-Za-z0-9_.|#:\[\]-])%s(?![A-Za-z0-9_.|#:\[\]-])" % nm, "|%s_var|" % nm, text)
        body = "(set-logic ALL)\n" + text + "\n(check-sat)\n"
        try:
            with tempfile.NamedTemporaryFile("w", suffix=".smt2", delete=False, dir=os.environ.get("PYSYM_CC_DIR")) as f:
                f.write(body)
                path = f.name
            try:
                pr = subprocess.run(["cvc5", "--tlimit=10000", path], capture_output=True, text=True, timeout=20)
                out = pr.stdout
                if os.environ.get("PYSYM_CC_KEEP") and not out.strip().startswith(("unsat", "sat")):
                    import shutil
                    shutil.copy(path, os.environ["PYSYM_CC_KEEP"])
                    with open(os.environ["PYSYM_CC_KEEP"] + ".out", "w") as g:
                        g.write(out + pr.stderr)
            finally:
                os.unlink(path)
        except Exception:
            out = "error"
        first = out.strip().splitlines()[0] if out.strip() else "error"
        if first == "unsat":
            st["cc_agree"] = st.get("cc_agree", 0) + 1
        elif first == "sat":
            st["cc_disagree"] = st.get("cc_disagree", 0) + 1
            raise SolverUnknown("second solver (cvc5) answers sat where z3 answered unsat")
        else:
            st["cc_undecided"] = st.get("cc_undecided", 0) + 1

    def cur_model(self):
        return self.fresh_solver.model() if (self.real_mode and self.fresh_solver is not None) else self.solver.model()

    def add_fact(self, t):
        """definitional constraint over fresh variables (always satisfiable): no feasibility check"""
        self.pc.append(t)
        self.solver.add(t)
        self.model = None

    def _add(self, t):
        self.pc.append(t)
        self.solver.add(t)

    def get_model(self):
        if self.model is None:
            r = self.check()
            if r != z3.sat:
                raise PathAbort()
            self.model = self.cur_model()
        return self.model

    def model_truth(self, cond):
        m = self.get_model()
        v = m.eval(cond, model_completion=True)
        if z3.is_true(v):
            return True
        if z3.is_false(v):
            return False
        v = z3.simplify(v)
        if z3.is_true(v):
            return True
        if z3.is_false(v):
            return False
        return None

    def assume(self, cond):
        """harness precondition: prune the path if infeasible"""
        if isinstance(cond, bool):
            if not cond:
                raise PathAbort()
            return
        if not isinstance(cond, SymBool):
            if not self.truth(cond):
                raise PathAbort()
            return
        t = cond.t
        if self.pos < len(self.decisions):
            self._add(t)
            return
        mv = self.model_truth(t)
        if mv is True:
            self._add(t)
            return
        r = self.check(t)
        if r == z3.unsat:
            raise PathAbort()
        try:
            self.model = self.cur_model()
        except z3.Z3Exception:
            print("DEBUG assume: r=", r, "cond=", str(t)[:300], flush=True)
            self.model = None
        self._add(t)

    def decide(self, cond):
        """Branch on a z3 Bool; returns a python bool. Forks when both sides are feasible."""
        cond = z3.simplify(cond)
        if z3.is_true(cond):
            return True
        if z3.is_false(cond):
            return False
        if self.var_bounds:
            iv = self.interval_truth(cond)
            if iv is not None:
                return iv
        if self.pos < len(self.decisions):
            d = self.decisions[self.pos]
            if not isinstance(d, bool):
                raise Unsupported("replay desync (bool expected)")
            self.pos += 1
            self._add(cond if d else z3.Not(cond))
            return d
        self.stats["decisions"] += 1
        mv = self.model_truth(cond)
        if mv is None:
            # model could not evaluate: explicit check
            if self.check(cond) == z3.sat:
                mv = True
                self.model = self.cur_model()
            else:
                mv = False
        other = z3.Not(cond) if mv else cond
        r = self.check(other)
        if r == z3.sat:
            self.pending.append(self.decisions[: self.pos] + [not mv])
        self.decisions.append(mv)
        self.pos += 1
        self._add(cond if mv else z3.Not(cond))
        return mv

    def truth(self, v):
        if isinstance(v, bool):
            return v
        if isinstance(v, SymBool):
            return self.decide(v.t)
        if isinstance(v, SymInt):
            return self.decide(v.t != 0)
        if isinstance(v, SymBV):
            return self.decide(v.t != 0)
        if type(v).__name__ == "SymBlob":
            from . import blob
            return self.truth(self.cmp("Gt", blob.blob_len(self, v), 0))
        if isinstance(v, SymStr):
            return len(v.cs) > 0
        if isinstance(v, SymBytes):
            return len(v.bs) > 0
        if isinstance(v, LazyStr):
            return self.truth(self.force_str(v))
        if isinstance(v, SymFloat):
            if v.ival is not None:
                return self.truth(v.ival)
            if v.dec is not None:
                return True
            if v.quot is not None:
                return self.truth(v.quot[0]) if False else self.truth(self.cmp("NotEq", v.quot[0], 0))
            if v.real is not None:
                return self.decide(v.real != 0)
            return self.decide(z3.Not(z3.fpIsZero(self.to_fp(v))))
        if isinstance(v, Opaque):
            raise Unsupported("truth value of opaque payload")
        if v is None:
            return False
        ln = _find_in_mro(type(v), "__len__")
        if ln is not None and self.interpretable(ln) and _find_in_mro(type(v), "__bool__") is None:
            return self.truth(self.cmp("NotEq", self.call_function(ln, [v], {}), 0))
        return bool(v)

    def concretize_int(self, v, what="", limit=4096):
        """fork over all feasible values of a symbolic int (the harness keeps the range small)."""
        if isinstance(v, SymBool):
            return int(self.truth(v))
        if isinstance(v, SymFloat) and v.ival is not None:
            return float(self.concretize_int(v.ival, what, limit))
        if not isinstance(v, (SymInt, SymBV)):
            return v
        t = v.t
        n = 0
        while True:
            n += 1
            if n > limit:
                raise Unsupported("concretize: more than %d values: %s" % (limit, what))
            if self.pos < len(self.decisions):
                d = self.decisions[self.pos]
                if not isinstance(d, tuple):
                    raise Unsupported("replay desync (value expected)")
                self.pos += 1
                if d[0] == "val":
                    self._add(t == self._val(v, d[1]))
                    return d[1]
                self._add(t != self._val(v, d[1]))
                continue
            self.stats["decisions"] += 1
            m = self.get_model()
            mv = m.eval(t, model_completion=True)
            if isinstance(v, SymBV):
                k = mv.as_signed_long() if v.signed else mv.as_long()
            else:
                k = mv.as_long()
            kv = self._val(v, k)
            if self.check(t != kv) == z3.sat:
                self.pending.append(self.decisions[: self.pos] + [("ne", k)])
            self.decisions.append(("val", k))
            self.pos += 1
            self._add(t == kv)
            return k

    @staticmethod
    def _val(v, k):
        if isinstance(v, SymBV):
            return z3.BitVecVal(k, v.w)
        return z3.IntVal(k)

    # ----------------------------------------------------------------------- assertions
    def site_of(self, node, frame):
        src = self.src_segment(node, frame)
        return f"L{getattr(node, 'lineno', 0) + frame.line_base}:{src}"

    def src_segment(self, node, frame):
        try:
            return " ".join(ast.unparse(node).split())[:160]
        except Exception:
            return "?"

    def check_assert(self, cond, node, frame):
        site = self.site_of(node, frame)
        self.sites_reached[site] = self.sites_reached.get(site, 0) + 1
        if not isinstance(cond, SymBool):
            if isinstance(cond, (SymInt, SymBV, SymFloat)):
                cond = self.cmp("NotEq", cond, 0)
            else:
                ok = self.truth(cond)
                self.stats["assert_queries"] += 1
                if ok:
                    self.stats["assert_unsat"] += 1
                    return
                self.record_violation(site, None)
                raise Violation(site)
        if not isinstance(cond, SymBool):
            if cond:
                return
            self.record_violation(site, None)
            raise Violation(site)
        t = cond.t
        self.stats["assert_queries"] += 1
        t0 = time.time()
        try:
            r = self.check(z3.Not(t))
        except SolverUnknown as e:
            raise SolverUnknown(f"{e} while deciding {site}")
        self.stats["assert_s"] += time.time() - t0
        if r == z3.unsat:
            self.stats["assert_unsat"] += 1
            if self.crosscheck_every:
                self.crosscheck(z3.Not(t))
            self._add(t)
            return
        self.record_violation(site, z3.Not(t))
        # continue the path under the assertion if it can hold, so later asserts are checked too
        if self.check(t) == z3.sat:
            self._add(t)
            self.model = None
            self.path_violated.append(site)
            return
        raise Violation(site)

    def record_violation(self, site, extra, exc=None):
        """extra: z3 Bool (negated assertion) or None. Splits the finding by known regions."""
        cons = [extra] if extra is not None else []
        regions = [r for r in self.known if r["site_match"] in site]
        inside = None
        outside_model = None
        if regions:
            rts = []
            for reg in regions:
                rt = self.eval_region(reg["region"])
                rts.append(rt)
            not_any = [z3.Not(zbool(rt)) if isinstance(rt, SymBool) else z3.BoolVal(not rt) for rt in rts]
            if self.check(*(cons + not_any)) == z3.sat:
                outside_model = self.cur_model()
            else:
                for reg, rt in zip(regions, rts):
                    c = zbool(rt) if isinstance(rt, SymBool) else z3.BoolVal(bool(rt))
                    if self.check(*(cons + [c])) == z3.sat:
                        self.violations.append(dict(site=site, known=reg["id"], inputs=self.extract_inputs(self.cur_model()),
                                                    exc=type(exc).__name__ if exc else None))
            if outside_model is None:
                return
            model = outside_model
        else:
            if self.check(*cons) != z3.sat:
                return
            model = self.cur_model()
        v = dict(site=site, known=None, model_nondet=self.path_model_nondet, inputs=self.extract_inputs(model),
                 exc=type(exc).__name__ if exc else None, where=_exc_where(exc) if exc else None)
        if self.path_model_nondet and not regions:
            # the path depends on an over-approximating library model: keep the constraint system and the input terms so
            # that further models can be tried natively if this one turns out to be an unrealised choice
            v["_smt"] = (list(self.pc) + cons, dict(self.inputs))
        self.violations.append(v)

    def eval_region(self, src):
        node = ast.parse(src, mode="eval").body
        env = dict(getattr(self, "case", {}) or {})
        env.update({k: v[1] for k, v in self.inputs.items()})
        fr = Frame(env, {"__builtins__": builtins}, None, None)
        saved = (self.pending, self.decisions, self.pos)
        # regions must be branch-free predicates: forbid forking
        self.pending = _NoFork()
        try:
            return self.eval(node, fr)
        finally:
            self.pending, self.decisions, self.pos = saved

    # ----------------------------------------------------------------------- inputs
    def register_input(self, name, kind, value):
        self.inputs[name] = (kind, value)

    def extract_inputs(self, model):
        out = {}
        for name, (kind, v) in self.inputs.items():
            out[name] = self.concretize_value(model, v)
        return out

    def concretize_value(self, m, v):
        if isinstance(v, SymInt):
            return m.eval(v.t, model_completion=True).as_long()
        if isinstance(v, SymBV):
            x = m.eval(v.t, model_completion=True)
            return x.as_signed_long() if v.signed else x.as_long()
        if isinstance(v, SymBool):
            return z3.is_true(m.eval(v.t, model_completion=True))
        if isinstance(v, SymStr):
            return "".join(chr(self.concretize_value(m, c)) for c in v.cs)
        if isinstance(v, SymBytes):
            return bytes(self.concretize_value(m, b) for b in v.bs)
        if isinstance(v, SymFloat):
            if v.ival is not None:
                return float(self.concretize_value(m, v.ival))
            if v.dec is not None:
                neg, digits, e10 = v.dec
                ds = "".join(str(self.concretize_value(m, d)) for d in digits)
                ng = self.concretize_value(m, neg)
                return float(("-" if ng else "") + ds[0] + "." + (ds[1:] or "0") + "e" + str(e10))
            if v.quot is not None:
                return self.concretize_value(m, v.quot[0]) / v.quot[1]
            x = m.eval(self.to_fp(v), model_completion=True)
            return _fp_to_py(x)
        if isinstance(v, (list, tuple)):
            return type(v)(self.concretize_value(m, x) for x in v)
        if isinstance(v, dict):
            return {k: self.concretize_value(m, x) for k, x in v.items()}
        return v

    # ======================================================================= functions
    def get_ast(self, fn):
        code = fn.__code__
        hit = self.ast_cache.get(code)
        if hit is not None:
            return hit
        try:
            lines, start = inspect.getsourcelines(code)   # the code object: never follows __wrapped__
        except (OSError, TypeError) as e:
            raise Unsupported(f"no source for {fn}: {e}")
        src = textwrap.dedent("".join(lines))
        try:
            tree = ast.parse(src)
        except SyntaxError:
            # e.g. a lambda inside a dict literal line: wrap in parentheses
            tree = ast.parse("(" + src.strip().rstrip(",") + ")")
        node = tree.body[0]
        if not isinstance(node, (ast.FunctionDef, ast.AsyncFunctionDef)):
            cands = [n for n in ast.walk(tree) if isinstance(n, ast.Lambda)]
            if code.co_name != "<lambda>" or not cands:
                raise Unsupported(f"cannot locate source of {fn}")
            # choose the lambda with matching argument names and column
            names = code.co_varnames[: code.co_argcount]
            cands = [n for n in cands if tuple(a.arg for a in n.args.args) == tuple(names)] or cands
            if len(cands) > 1:
                consts = set(c for c in code.co_consts if isinstance(c, (str, int)))
                def score(n):
                    cs = set(c.value for c in ast.walk(n) if isinstance(c, ast.Constant) and isinstance(c.value, (str, int)))
                    nm = set(x.id for x in ast.walk(n) if isinstance(x, ast.Name)) | set(x.attr for x in ast.walk(n) if isinstance(x, ast.Attribute))
                    return len(cs & consts) - len(cs - consts) + len(nm & set(code.co_names)) - len(nm - set(code.co_names) - set(names))
                cands.sort(key=score, reverse=True)
            node = cands[0]
        info = (node, start - 1)
        self.ast_cache[code] = info
        qn = f"{fn.__module__}.{fn.__qualname__}"
        self.func_hashes[qn] = hashlib.sha256(src.encode()).hexdigest()[:16]
        return info

    def interpretable(self, fn):
        if not isinstance(fn, types.FunctionType):
            return False
        mod = getattr(fn, "__module__", "") or ""
        if getattr(fn, "_native_model", False):
            return False
        if not fn.__code__.co_filename.endswith(".py"):
            return False  # generated code (dataclass __init__ etc.)
        if fn.__code__ in self.extra_interp:
            return True
        return mod.split(".")[0] in INTERP_PREFIXES

    def _stays_lazy(self, fn):
        """interpreted callees receive a generator expression unconsumed; models and native code get its items"""
        if isinstance(fn, Closure) or fn in (next, iter, isinstance, type, id, hasattr):
            return True
        if isinstance(fn, types.MethodType):
            return self._stays_lazy(fn.__func__)
        if isinstance(fn, functools.partial):
            return self._stays_lazy(fn.func)
        if getattr(fn, "_is_model", False) is True:
            return False
        try:
            m = self.models.get(fn)
            if m is not None:
                return getattr(m, "_lazy_ok", False)      # any() / all() stop at the first deciding element, as CPython does
        except TypeError:
            pass
        if isinstance(fn, type):
            init = _find_in_mro(fn, "__init__")
            return init is not None and self.interpretable(init)
        return self.interpretable(fn)

    def call(self, fn, args, kwargs):
        if isinstance(fn, types.BuiltinMethodType) and fn.__name__ in self._MUTATORS and \
                isinstance(getattr(fn, "__self__", None), (list, dict, set, bytearray)) or \
                (type(getattr(fn, "__self__", None)).__name__ == "deque" and getattr(fn, "__name__", "") in self._MUTATORS):
            self.journal(fn.__self__)
        if any(isinstance(a, LazyGen) for a in args) or any(isinstance(a, LazyGen) for a in kwargs.values()):
            if not self._stays_lazy(fn):
                args = [list(a) if isinstance(a, LazyGen) else a for a in args]
                kwargs = {k: (list(a) if isinstance(a, LazyGen) else a) for k, a in kwargs.items()}
        if isinstance(fn, Closure):
            return fn.invoke(self, args, kwargs)
        if getattr(fn, "_is_model", False) is True:
            return fn(self, *args, **kwargs)
        if isinstance(fn, types.MethodType):
            f = fn.__func__
            if isinstance(f, Closure) or self.interpretable(f) or f in self.models:
                return self.call(f, [fn.__self__] + list(args), kwargs)
        try:
            m = self.models.get(fn)
        except TypeError:
            m = None
        if m is None and isinstance(fn, types.BuiltinMethodType) and type(getattr(fn, "__self__", None)).__name__ == "Struct" \
                and fn.__name__ in ("pack", "unpack") and any(deep_sym(a) for a in args):
            import struct as _struct
            from .models import m_pack, m_unpack
            fmt = fn.__self__.format
            if fmt and fmt[0] in ">!" and all(c in "Bbx0123456789" for c in fmt[1:]):
                fmt = "<" + fmt[1:]          # single bytes: byte order is irrelevant
            return (m_pack if fn.__name__ == "pack" else m_unpack)(self, fmt, *args)
        if m is not None:
            return m(self, *args, **kwargs)
        if isinstance(fn, functools.partial):
            return self.call(fn.func, list(fn.args) + list(args), {**fn.keywords, **kwargs})
        if self.interpretable(fn):
            return self.call_function(fn, args, kwargs)
        if isinstance(fn, type):
            return self.call_type(fn, args, kwargs)
        if isinstance(fn, (types.BuiltinMethodType, types.MethodWrapperType)) or type(fn).__name__ == "method_descriptor":
            r = self.call_builtin_method(fn, args, kwargs)
            if r is not NotImplemented:
                return r
        if isinstance(fn, Sym):
            raise TypeError(f"'{type(fn).__name__}' object is not callable")
        # callable instances of interpreted classes
        if not isinstance(fn, (types.FunctionType, types.BuiltinFunctionType, type)):
            c = _find_in_mro(type(fn), "__call__")
            if c is not None and self.interpretable(c):
                return self.call_function(c, [fn] + list(args), kwargs)
        if any(deep_sym(a) for a in args) or any(deep_sym(a) for a in kwargs.values()):
            if getattr(fn, "_sym_ok", False):
                return fn(*args, **kwargs)
            raise Unsupported(f"native call {getattr(fn, '__qualname__', fn)} with symbolic arguments")
        return fn(*args, **kwargs)

    DATA_MOVERS = {
        list: ("append", "extend", "insert", "pop", "clear", "copy", "reverse", "__len__"),
        dict: ("get", "update", "items", "values", "keys", "setdefault", "clear", "copy", "pop"),
        set: ("add", "update", "clear", "copy"),
    }

    def call_builtin_method(self, fn, args, kwargs):
        recv = getattr(fn, "__self__", None)
        name = fn.__name__
        if isinstance(recv, str) and recv is not None and (any(deep_sym(a) for a in args)):
            return StrMethod(recv, name)(self, *args, **kwargs)
        if isinstance(recv, (bytes, bytearray)) and any(deep_sym(a) for a in args):
            return BytesMethod(recv, name)(self, *args, **kwargs)
        if isinstance(recv, list):
            if name in ("index", "count", "remove") and (deep_sym(recv) or any(deep_sym(a) for a in args)):
                return self.list_method(recv, name, args)
            if name == "pop" and args and is_sym(args[0]):
                return recv.pop(self.conc_index(args[0], len(recv)))
            if name == "insert" and is_sym(args[0]):
                i = self.concretize_int(args[0], "list.insert index")
                return recv.insert(i, args[1])
            if name == "sort":
                if deep_sym(recv) or kwargs:
                    from .models import m_sorted
                    if args or set(kwargs) - {"key", "reverse"}:
                        raise Unsupported("list.sort arguments")
                    recv[:] = m_sorted(self, list(recv), key=kwargs.get("key"), reverse=kwargs.get("reverse", False))
                    return None
            if name in self.DATA_MOVERS[list]:
                return fn(*args, **kwargs)
        if isinstance(recv, dict):
            if id(recv) in self.symdicts or any(is_sym(a) for a in args[:1]):
                return self.symdict_method(recv, name, args, kwargs)
            if name in self.DATA_MOVERS[dict]:
                return fn(*args, **kwargs)
        if isinstance(recv, set):
            if name == "add" and (deep_sym(args[0]) or id(recv) in self.symsets):
                self.set_add(recv, args[0])
                return None
            if name in ("discard", "remove") and (deep_sym(args[0]) or id(recv) in self.symsets):
                ent = self.symsets.setdefault(id(recv), (recv, []))[1]
                for k in list(recv):
                    c = self.cmp("Eq", args[0], k)
                    if c is False:
                        continue
                    if self.truth(c):
                        recv.discard(k)
                        return None
                for i, k in enumerate(ent):
                    c = self.cmp("Eq", args[0], k)
                    if c is False:
                        continue
                    if self.truth(c):
                        del ent[i]
                        return None
                if name == "remove":
                    raise KeyError(_ExcArg(args[0]))
                return None
            if name in self.DATA_MOVERS[set] and not any(deep_sym(a) for a in args):
                return fn(*args, **kwargs)
        return NotImplemented

    def list_method(self, lst, name, args):
        x = args[0]
        if name == "count":
            n = 0
            for it in lst:
                if self.truth(self.cmp("Eq", it, x)):
                    n += 1
            return n
        for i, it in enumerate(lst):
            if self.truth(self.cmp("Eq", it, x)):
                if name == "index":
                    return i
                del lst[i]
                return None
        raise ValueError("list.%s(x): x not in list" % name)

    def symdict_method(self, d, name, args, kwargs):
        if name == "get":
            try:
                return self.getitem(d, args[0])
            except KeyError:
                return args[1] if len(args) > 1 else None
        if name == "setdefault":
            try:
                return self.getitem(d, args[0])
            except KeyError:
                self.setitem(d, args[0], args[1] if len(args) > 1 else None)
                return args[1] if len(args) > 1 else None
        if name == "pop":
            # dict.pop(key[, default]) with a symbolic key: fork over the keys it may equal
            for k in list(d):
                c = self.cmp("Eq", args[0], k)
                if c is False:
                    continue
                if self.truth(c):
                    return d.pop(k)
            ent = self.symdicts.get(id(d))
            if ent is not None:
                for i, (k, v) in enumerate(ent[1]):
                    c = self.cmp("Eq", args[0], k)
                    if c is False:
                        continue
                    if self.truth(c):
                        del ent[1][i]
                        return v
            if len(args) > 1:
                return args[1]
            raise KeyError(_ExcArg(args[0]))
        if name in ("items", "keys", "values"):
            extra = self.symdicts.get(id(d), (d, []))[1]
            if name == "keys":
                return list(d.keys()) + [k for k, _ in extra]
            if name == "values":
                return list(d.values()) + [v for _, v in extra]
            return list(d.items()) + list(extra)
        raise Unsupported("dict.%s with symbolic keys" % name)

    def call_type(self, cls, args, kwargs):
        mod = (getattr(cls, "__module__", "") or "").split(".")[0]
        if mod in INTERP_PREFIXES and not issubclass(cls, (BaseException, tuple, int, str)):
            return self.instantiate(cls, args, kwargs)
        if issubclass(cls, BaseException):
            return cls(*[_ExcArg(a) if is_sym(a) else a for a in args])
        if any(deep_sym(a) for a in args) or any(deep_sym(a) for a in kwargs.values()):
            if cls in (list, tuple):
                return cls(self.iterate(args[0]))
            if mod in INTERP_PREFIXES and issubclass(cls, tuple) and hasattr(cls, "_fields"):
                new = cls.__dict__.get("__new__")
                if new is not None and self.interpretable(getattr(new, "__func__", new)):
                    return self.call_function(getattr(new, "__func__", new), [cls] + list(args), kwargs)
                return tuple.__new__(cls, list(args) + [kwargs[f] for f in cls._fields[len(args):]])
            if cls is dict:
                return dict(*args, **kwargs)
            raise Unsupported(f"constructing {cls.__name__} from symbolic arguments")
        return cls(*args, **kwargs)

    def instantiate(self, cls, args, kwargs):
        new = _find_in_mro(cls, "__new__")
        if new is object.__new__ or new is None or not self.interpretable(getattr(new, "__func__", new)):
            if new is not object.__new__ and new is not None and cls.__new__ is not object.__new__:
                # enum / exotic: native
                if any(deep_sym(a) for a in args):
                    raise Unsupported(f"native __new__ of {cls.__name__} with symbolic args")
                return cls(*args, **kwargs)
            obj = object.__new__(cls)
        else:
            obj = self.call_function(getattr(new, "__func__", new), [cls] + list(args), kwargs)
            if not isinstance(obj, cls):
                return obj
        init = _find_in_mro(cls, "__init__")
        if init is None or init is object.__init__:
            return obj
        if self.interpretable(init):
            self.call_function(init, [obj] + list(args), kwargs)
        elif dataclasses.is_dataclass(cls) and "__dataclass_fields__" in cls.__dict__ or (
                dataclasses.is_dataclass(cls) and getattr(init, "__qualname__", "").endswith("__init__") and
                "__create_fn__" in getattr(init, "__qualname__", "")):
            self.dataclass_init(cls, obj, args, kwargs)
        elif dataclasses.is_dataclass(cls):
            self.dataclass_init(cls, obj, args, kwargs)
        else:
            if any(deep_sym(a) for a in args) or any(deep_sym(a) for a in kwargs.values()):
                raise Unsupported(f"native __init__ of {cls.__name__} with symbolic args")
            init(obj, *args, **kwargs)
        return obj

    def dataclass_init(self, cls, obj, args, kwargs):
        """re-synthesised dataclass __init__, so that __setattr__/__post_init__ are interpreted"""
        kwargs = dict(kwargs)
        flds = [f for f in dataclasses.fields(cls)]
        init_flds = [f for f in flds if f.init]
        if len(args) > len(init_flds):
            raise TypeError(f"{cls.__name__}.__init__() takes {len(init_flds)} positional arguments")
        vals = {}
        for f, a in zip(init_flds, args):
            vals[f.name] = a
        for f in init_flds[len(args):]:
            if f.name in kwargs:
                vals[f.name] = kwargs.pop(f.name)
        if kwargs:
            raise TypeError(f"{cls.__name__}.__init__() got an unexpected keyword argument {list(kwargs)[0]!r}")
        for f in flds:
            if f.name in vals:
                v = vals[f.name]
            elif f.default is not dataclasses.MISSING:
                v = f.default
            elif f.default_factory is not dataclasses.MISSING:
                v = self.call(f.default_factory, [], {})
            elif f.init:
                raise TypeError(f"{cls.__name__}.__init__() missing required argument: {f.name!r}")
            else:
                continue
            self.setattr(obj, f.name, v)
        post = _find_in_mro(cls, "__post_init__")
        if post is not None:
            self.call(post, [obj], {})

    def call_function(self, fn, args, kwargs):
        node, base = self.get_ast(fn)
        env = {}
        self.bind_args(node.args, fn, args, kwargs, env)
        if fn.__closure__:
            # free variables of a native closure (read access); after the parameters: the first entry of env is `self`
            for nm, cell in zip(fn.__code__.co_freevars, fn.__closure__):
                if nm not in env and nm != "__class__":
                    try:
                        env[nm] = cell.cell_contents
                    except ValueError:
                        pass
        frame = Frame(env, fn.__globals__, fn, None)
        frame.line_base = base
        self.depth = getattr(self, "depth", 0) + 1
        if self.depth > 120:
            self.depth = 0
            raise Unsupported("interpreter call depth > 120")
        try:
            if isinstance(node, ast.Lambda):
                return self.eval(node.body, frame)
            if _is_generator(node):
                frame.yields = []
                try:
                    self.exec_block(node.body, frame)
                except _Return:
                    pass
                return frame.yields
            try:
                self.exec_block(node.body, frame)
            except _Return as r:
                return r.v
            return None
        finally:
            self.depth -= 1

    def bind_args(self, a, fn, args, kwargs, env, defaults=None, kwdefaults=None):
        kwargs = dict(kwargs)
        params = [x.arg for x in a.posonlyargs + a.args]
        if defaults is None:
            defaults = fn.__defaults__ or ()
            kwdefaults = fn.__kwdefaults__ or {}
        nd = len(defaults)
        args = list(args)
        name = getattr(fn, "__name__", "<closure>")
        for i, p in enumerate(params):
            if i < len(args):
                if p in kwargs:
                    raise TypeError(f"{name}() got multiple values for argument {p!r}")
                env[p] = args[i]
            elif p in kwargs:
                env[p] = kwargs.pop(p)
            else:
                j = i - (len(params) - nd)
                if j < 0:
                    raise TypeError(f"{name}() missing required positional argument: {p!r}")
                env[p] = defaults[j]
        if a.vararg:
            env[a.vararg.arg] = tuple(args[len(params):])
        elif len(args) > len(params):
            raise TypeError(f"{name}() takes {len(params)} positional arguments but {len(args)} were given")
        for k in a.kwonlyargs:
            if k.arg in kwargs:
                env[k.arg] = kwargs.pop(k.arg)
            elif k.arg in kwdefaults:
                env[k.arg] = kwdefaults[k.arg]
            else:
                raise TypeError(f"{name}() missing required keyword-only argument: {k.arg!r}")
        if a.kwarg:
            env[a.kwarg.arg] = kwargs
        elif kwargs:
            raise TypeError(f"{name}() got an unexpected keyword argument {list(kwargs)[0]!r}")

    # ======================================================================= statements
    def exec_block(self, stmts, frame):
        for s in stmts:
            m = getattr(self, "s_" + type(s).__name__, None)
            if m is None:
                raise Unsupported("stmt " + type(s).__name__)
            m(s, frame)

    def s_Expr(self, s, f):
        self.eval(s.value, f)

    def s_Pass(self, s, f):
        pass

    def s_Global(self, s, f):
        f.globals_decl.update(s.names)

    def s_Nonlocal(self, s, f):
        f.nonlocal_decl.update(s.names)

    def s_Return(self, s, f):
        raise _Return(self.eval(s.value, f) if s.value else None)

    def s_Break(self, s, f):
        raise _Break()

    def s_Continue(self, s, f):
        raise _Continue()

    def s_Assert(self, s, f):
        if f.is_spec():
            self.check_assert(self.eval(s.test, f), s, f)
        else:
            if not self.truth(self.eval(s.test, f)):
                raise AssertionError(self.eval(s.msg, f) if s.msg else None)

    def s_Assign(self, s, f):
        v = self.eval(s.value, f)
        for t in s.targets:
            self.assign(t, v, f)

    def s_AnnAssign(self, s, f):
        if s.value is not None:
            self.assign(s.target, self.eval(s.value, f), f)

    def s_AugAssign(self, s, f):
        t = s.target
        if isinstance(t, ast.Name):
            cur = f.lookup(t.id)
            f.store(t.id, self.aug(s.op, cur, self.eval(s.value, f)))
        elif isinstance(t, ast.Attribute):
            obj = self.eval(t.value, f)
            cur = self.getattr(obj, t.attr)
            self.setattr(obj, t.attr, self.aug(s.op, cur, self.eval(s.value, f)))
        elif isinstance(t, ast.Subscript):
            obj = self.eval(t.value, f)
            idx = self.eval_index(t.slice, f)
            cur = self.getitem(obj, idx)
            self.setitem(obj, idx, self.aug(s.op, cur, self.eval(s.value, f)))
        else:
            raise Unsupported("augassign target")

    def aug(self, op, cur, v):
        if isinstance(cur, (list, bytearray, set, dict)):
            self.journal(cur)
        if isinstance(op, ast.Add) and isinstance(cur, list):
            cur.extend(self.iterate(v))
            return cur
        if isinstance(op, ast.Add) and isinstance(cur, bytearray):
            if isinstance(v, SymBytes):
                return mkbytes(list(cur) + v.bs, True)
            cur += v
            return cur
        if isinstance(op, ast.Add) and isinstance(cur, SymBytes) and cur.mutable:
            cur.bs.extend(as_bytes_list(v))
            return cur
        if isinstance(op, ast.BitOr) and isinstance(cur, (set, dict)) and not deep_sym(v):
            cur |= v
            return cur
        return self.binop(op, cur, v)

    def s_FunctionDef(self, s, f):
        c = Closure(s, f)
        v = c
        for d in reversed(s.decorator_list):
            v = self.call(self.eval(d, f), [v], {})
        f.store(s.name, v)

    def s_Import(self, s, f):
        for a in s.names:
            mod = __import__(a.name)
            if a.asname:
                for part in a.name.split(".")[1:]:
                    mod = getattr(mod, part)
            f.store(a.asname or a.name.split(".")[0], mod)

    def s_ImportFrom(self, s, f):
        import importlib
        if s.level:
            raise Unsupported("relative import inside function")
        mod = importlib.import_module(s.module)
        for a in s.names:
            f.store(a.asname or a.name, getattr(mod, a.name))

    def s_Delete(self, s, f):
        for t in s.targets:
            if isinstance(t, ast.Subscript):
                obj = self.eval(t.value, f)
                if isinstance(obj, (list, dict, bytearray)):
                    self.journal(obj)
                idx = self.eval_index(t.slice, f)
                if isinstance(idx, slice):
                    idx = self.conc_slice(idx, self.length(obj))
                elif is_sym(idx):
                    if isinstance(obj, list):
                        idx = self.conc_index(idx, len(obj))
                    elif isinstance(obj, dict):
                        ent = self.symdicts.get(id(obj))
                        done = False
                        if ent is not None:
                            # association list of symbolic-key bindings: the most recent binding of an equal key
                            for i in range(len(ent[1]) - 1, -1, -1):
                                c = self.cmp("Eq", idx, ent[1][i][0])
                                if c is not False and self.truth(c):
                                    del ent[1][i]
                                    done = True
                                    break
                        if done:
                            continue
                        for k in list(obj):
                            if self.truth(self.cmp("Eq", idx, k)):
                                idx = k
                                break
                        else:
                            raise KeyError(idx)
                    else:
                        idx = self.concretize_int(idx)
                if isinstance(obj, SymBytes):
                    del obj.bs[idx]
                else:
                    del obj[idx]
            elif isinstance(t, ast.Name):
                del f.env[t.id]
            elif isinstance(t, ast.Attribute):
                tgt = self.eval(t.value, f)
                if isinstance(tgt, (types.ModuleType, type)):
                    self.journal_attr(tgt, t.attr)
                delattr(tgt, t.attr)
            else:
                raise Unsupported("del target")

    def s_If(self, s, f):
        if self.truth(self.eval(s.test, f)):
            self.exec_block(s.body, f)
        else:
            self.exec_block(s.orelse, f)

    def s_While(self, s, f):
        n = 0
        while self.truth(self.eval(s.test, f)):
            n += 1
            if n > self.loop_bound:
                raise Unsupported("unwinding assertion: loop bound %d exceeded at line %d" % (self.loop_bound, s.lineno))
            try:
                self.exec_block(s.body, f)
            except _Break:
                return
            except _Continue:
                continue
        self.exec_block(s.orelse, f)

    def s_For(self, s, f):
        it = self.eval(s.iter, f)
        for item in self.iterate(it):
            self.assign(s.target, item, f)
            try:
                self.exec_block(s.body, f)
            except _Break:
                return
            except _Continue:
                continue
        self.exec_block(s.orelse, f)

    def s_Raise(self, s, f):
        if s.exc is None:
            if f.current_exc is None:
                raise RuntimeError("No active exception to reraise")
            raise f.current_exc
        e = self.eval(s.exc, f)
        if isinstance(e, type):
            e = self.call(e, [], {})
        if s.cause is not None:
            c = self.eval(s.cause, f)
            try:
                e.__cause__ = c
            except Exception:
                pass
        raise e

    def s_Try(self, s, f):
        try:
            try:
                self.exec_block(s.body, f)
            except INTERNAL:
                raise
            except Exception as e:
                for h in s.handlers:
                    if h.type is None or self.exc_matches(e, self.eval(h.type, f)):
                        if h.name:
                            f.store(h.name, e)
                        old = f.current_exc
                        f.current_exc = e
                        try:
                            self.exec_block(h.body, f)
                        finally:
                            f.current_exc = old
                        break
                else:
                    raise
            else:
                self.exec_block(s.orelse, f)
        finally:
            if s.finalbody:
                self.exec_block(s.finalbody, f)

    def exc_matches(self, e, t):
        if isinstance(t, tuple):
            return any(self.exc_matches(e, x) for x in t)
        return isinstance(e, t)

    def s_With(self, s, f):
        if len(s.items) != 1:
            raise Unsupported("with: multiple items")
        item = s.items[0]
        cm = self.eval(item.context_expr, f)
        if isinstance(cm, contextlib.suppress):
            try:
                self.exec_block(s.body, f)
            except INTERNAL:
                raise
            except cm._exceptions:
                pass
            return
        enter = _find_in_mro(type(cm), "__enter__")
        exit_ = _find_in_mro(type(cm), "__exit__")
        if enter is None or exit_ is None:
            raise Unsupported("with: not a context manager")
        v = self.call(enter, [cm], {}) if self.interpretable(enter) else cm.__enter__()
        if item.optional_vars is not None:
            self.assign(item.optional_vars, v, f)
        try:
            self.exec_block(s.body, f)
        except INTERNAL:
            raise
        except Exception as e:
            sup = self.call(exit_, [cm, type(e), e, None], {}) if self.interpretable(exit_) else cm.__exit__(type(e), e, None)
            if not sup:
                raise
            return
        if self.interpretable(exit_):
            self.call(exit_, [cm, None, None, None], {})
        else:
            cm.__exit__(None, None, None)

    def assign(self, t, v, f):
        if isinstance(t, ast.Name):
            f.store(t.id, v)
        elif isinstance(t, (ast.Tuple, ast.List)):
            items = list(self.iterate(v))
            star = [i for i, e in enumerate(t.elts) if isinstance(e, ast.Starred)]
            if star:
                i = star[0]
                n_after = len(t.elts) - i - 1
                if len(items) < len(t.elts) - 1:
                    raise ValueError("not enough values to unpack")
                for e, x in zip(t.elts[:i], items[:i]):
                    self.assign(e, x, f)
                self.assign(t.elts[i].value, items[i: len(items) - n_after], f)
                for e, x in zip(t.elts[i + 1:], items[len(items) - n_after:]):
                    self.assign(e, x, f)
                return
            if len(items) != len(t.elts):
                raise ValueError(f"unpack mismatch (expected {len(t.elts)}, got {len(items)})")
            for e, x in zip(t.elts, items):
                self.assign(e, x, f)
        elif isinstance(t, ast.Attribute):
            self.setattr(self.eval(t.value, f), t.attr, v)
        elif isinstance(t, ast.Subscript):
            self.setitem(self.eval(t.value, f), self.eval_index(t.slice, f), v)
        else:
            raise Unsupported("assign target " + type(t).__name__)

    def setattr(self, obj, name, v):
        if isinstance(obj, Sym):
            raise AttributeError(f"cannot set attribute {name!r}")
        cls = type(obj)
        sa = _find_in_mro(cls, "__setattr__")
        if sa is not None and sa is not object.__setattr__ and self.interpretable(sa):
            self.call_function(sa, [obj, name, v], {})
            return
        d = _find_in_mro(cls, name) if not isinstance(obj, type) else None
        if isinstance(d, property):
            if d.fset is None:
                raise AttributeError(f"property {name!r} has no setter")
            self.call(d.fset, [obj, v], {})
            return
        if isinstance(obj, (types.ModuleType, type)):
            self.journal_attr(obj, name)
            setattr(obj, name, v)
            return
        object.__setattr__(obj, name, v)

    def setitem(self, obj, idx, v):
        if isinstance(obj, (list, dict, bytearray)):
            self.journal(obj)
        if isinstance(obj, bytearray) and (deep_sym(v) or is_sym(idx)):
            raise Unsupported("store of symbolic byte into a native bytearray (use a SymBytes buffer)")
        if isinstance(obj, SymBytes):
            if not obj.mutable:
                raise TypeError("'bytes' object does not support item assignment")
            if isinstance(idx, slice):
                sl = self.conc_slice(idx, len(obj.bs))
                obj.bs[sl] = as_bytes_list(v) if isinstance(v, (SymBytes, bytes, bytearray)) else list(self.iterate(v))
                return
            idx = self.conc_index(idx, len(obj.bs), "bytearray index out of range") if is_sym(idx) else idx
            if is_sym(v):
                if self.truth(self.or_(self.cmp("Lt", v, 0), self.cmp("Gt", v, 255))):
                    raise ValueError("byte must be in range(0, 256)")
            elif not (0 <= v <= 255):
                raise ValueError("byte must be in range(0, 256)")
            obj.bs[idx] = v
            return
        if isinstance(idx, slice):
            idx = self.conc_slice(idx, self.length(obj))
            if isinstance(v, SymBytes):
                v = v.bs
            obj[idx] = v if isinstance(v, (list, tuple, bytes, bytearray, str)) else list(self.iterate(v))
            return
        if isinstance(obj, dict):
            if is_sym(idx) or (isinstance(idx, tuple) and deep_sym(idx)):
                if id(obj) in self.symdicts or True:
                    # overwrite a concrete key it may equal
                    for k in list(obj):
                        c = self.cmp("Eq", idx, k)
                        if c is False:
                            continue
                        if self.truth(c):
                            obj[k] = v
                            return
                    ent = self.symdicts.setdefault(id(obj), (obj, []))[1]
                    for i, (k, _) in enumerate(ent):
                        c = self.cmp("Eq", idx, k)
                        if c is False:
                            continue
                        if self.truth(c):
                            ent[i] = (k, v)
                            return
                    ent.append((idx, v))
                    return
            elif id(obj) in self.symdicts:
                ent = self.symdicts[id(obj)][1]
                for i, (k, _) in enumerate(ent):
                    c = self.cmp("Eq", idx, k)
                    if c is False:
                        continue
                    if self.truth(c):
                        ent[i] = (k, v)
                        return
            obj[idx] = v
            return
        if is_sym(idx):
            if isinstance(obj, list):
                idx = self.conc_index(idx, len(obj), "list assignment index out of range")
            else:
                idx = self.concretize_int(idx, "store index")
        si = _find_in_mro(type(obj), "__setitem__")
        if si is not None and self.interpretable(si):
            self.call_function(si, [obj, idx, v], {})
            return
        obj[idx] = v

    def conc_index(self, idx, n, msg="list index out of range"):
        """range-aware: one fork per valid index, a single path for out-of-range"""
        if not is_sym(idx):
            if not -n <= idx < n:
                raise IndexError(msg)
            return idx
        if isinstance(idx, SymBool):
            idx = mkint(zint(idx))
        inr = self.and_(self.cmp("GtE", idx, -n), self.cmp("Lt", idx, n))
        if not self.truth(inr):
            raise IndexError(msg)
        return self.concretize_int(idx, "sequence index")

    def conc_slice(self, sl, n):
        def c(v):
            return self.concretize_int(self.clamp(v, n), "slice bound") if is_sym(v) else v
        return slice(c(sl.start), c(sl.stop), c(sl.step) if sl.step is not None else None)

    def clamp(self, v, n):
        """reduce a symbolic slice bound to the n+1 distinct behaviours (python clamping)"""
        if self.truth(self.cmp("GtE", v, n)):
            return n
        if self.truth(self.cmp("LtE", v, -n)):
            return 0 if True else v
        return v

    def length(self, obj):
        if type(obj).__name__ == "SymBlob":
            from . import blob
            return blob.blob_len(self, obj)
        if isinstance(obj, SymStr):
            return len(obj.cs)
        if isinstance(obj, SymBytes):
            return len(obj.bs)
        if isinstance(obj, LazyStr):
            return len(chars(self.force_str(obj)))
        ln = _find_in_mro(type(obj), "__len__")
        if ln is not None and self.interpretable(ln):
            return self.call_function(ln, [obj], {})
        if isinstance(obj, dict) and id(obj) in self.symdicts:
            return len(obj) + len(self.symdicts[id(obj)][1])
        if isinstance(obj, set) and id(obj) in self.symsets:
            return len(obj) + len(self.symsets[id(obj)][1])
        return len(obj)

    # ======================================================================= expressions
    def eval(self, e, f):
        m = getattr(self, "e_" + type(e).__name__, None)
        if m is None:
            raise Unsupported("expr " + type(e).__name__)
        return m(e, f)

    def e_Constant(self, e, f):
        return e.value

    def e_Name(self, e, f):
        return f.lookup(e.id)

    def e_Tuple(self, e, f):
        return tuple(self.eval_elts(e.elts, f))

    def e_List(self, e, f):
        return list(self.eval_elts(e.elts, f))

    def e_Set(self, e, f):
        items = self.eval_elts(e.elts, f)
        if any(is_sym(x) for x in items):
            raise Unsupported("set literal with symbolic items")
        return set(items)

    def eval_elts(self, elts, f):
        out = []
        for x in elts:
            if isinstance(x, ast.Starred):
                out.extend(self.iterate(self.eval(x.value, f)))
            else:
                out.append(self.eval(x, f))
        return out

    def e_Dict(self, e, f):
        d = {}
        for k, v in zip(e.keys, e.values):
            if k is None:
                d.update(self.eval(v, f))
            else:
                self.setitem(d, self.eval(k, f), self.eval(v, f))
        return d

    def e_Lambda(self, e, f):
        return Closure(e, f)

    @staticmethod
    def _simple_expr(n):
        """side-effect- and exception-free expression: constants, names, + - * and unary minus of those"""
        if isinstance(n, (ast.Constant, ast.Name)):
            return True
        if isinstance(n, ast.BinOp) and isinstance(n.op, (ast.Add, ast.Sub, ast.Mult)):
            return Engine._simple_expr(n.left) and Engine._simple_expr(n.right)
        if isinstance(n, ast.UnaryOp) and isinstance(n.op, (ast.USub, ast.UAdd)):
            return Engine._simple_expr(n.operand)
        return False

    @staticmethod
    def _simple_cond(n):
        """pure boolean expression: comparisons (== != < <= > >=) of simple expressions, combined with and / or / not"""
        if isinstance(n, ast.Compare):
            return all(isinstance(o, (ast.Eq, ast.NotEq, ast.Lt, ast.LtE, ast.Gt, ast.GtE)) for o in n.ops) and \
                Engine._simple_expr(n.left) and all(Engine._simple_expr(c) for c in n.comparators)
        if isinstance(n, ast.BoolOp):
            return all(Engine._simple_cond(v) for v in n.values)
        if isinstance(n, ast.UnaryOp) and isinstance(n.op, ast.Not):
            return Engine._simple_cond(n.operand)
        return False

    def e_IfExp(self, e, f):
        c = self.eval(e.test, f)
        if isinstance(c, SymBool) and self._simple_expr(e.body) and self._simple_expr(e.orelse):
            # both arms are pure: merge into one if-then-else term instead of forking the path
            try:
                a, b = self.eval(e.body, f), self.eval(e.orelse, f)
            except (NameError, TypeError):
                a = b = None
            if isinstance(a, str) and isinstance(b, str) and len(a) == 1 and len(b) == 1:
                return mkstr([self.define_var("ite", z3.If(c.t, z3.IntVal(ord(a)), z3.IntVal(ord(b))), min(ord(a), ord(b)), max(ord(a), ord(b)))])
            if isinstance(a, (int, SymInt)) and isinstance(b, (int, SymInt)) and not isinstance(a, bool) and not isinstance(b, bool):
                r = mkint(z3.If(c.t, zint(a), zint(b)))
                if isinstance(r, SymInt):
                    la, lb = self.ibounds(zint(a)), self.ibounds(zint(b))
                    if None not in la and None not in lb:
                        return self.define_var("ite", r.t, min(la[0], lb[0]), max(la[1], lb[1]))
                return r
        return self.eval(e.body, f) if self.truth(c) else self.eval(e.orelse, f)

    def e_NamedExpr(self, e, f):
        v = self.eval(e.value, f)
        f.func_frame().store(e.target.id, v)
        return v

    def e_BoolOp(self, e, f):
        if len(e.values) > 1 and all(self._simple_cond(v) for v in e.values):
            # pure comparisons: one boolean term instead of a fork per operand (evaluation is side-effect free; if
            # an operand cannot be evaluated eagerly - e.g. a TypeError python would have short-circuited away - fall
            # back to the sequential semantics)
            try:
                vals = [self.eval(v, f) for v in e.values]
            except (TypeError, NameError, AttributeError):
                vals = None
            if vals is not None and all(isinstance(v, (bool, SymBool)) for v in vals) and any(isinstance(v, SymBool) for v in vals):
                r = vals[0]
                for v in vals[1:]:
                    r = self.and_(r, v) if isinstance(e.op, ast.And) else self.or_(r, v)
                return r
        if isinstance(e.op, ast.And):
            v = True
            for x in e.values:
                v = self.eval(x, f)
                if not self.truth(v):
                    return v
            return v
        v = False
        for x in e.values:
            v = self.eval(x, f)
            if self.truth(v):
                return v
        return v

    def e_UnaryOp(self, e, f):
        v = self.eval(e.operand, f)
        if isinstance(e.op, ast.Not):
            if isinstance(v, SymBool):
                return mkbool(z3.Not(v.t))
            return not self.truth(v)
        if isinstance(e.op, ast.USub):
            return self.neg(v)
        if isinstance(e.op, ast.UAdd):
            return v
        if isinstance(e.op, ast.Invert):
            return self.op("Sub", self.neg(v), 1)
        raise Unsupported("unary")

    def e_BinOp(self, e, f):
        return self.binop(e.op, self.eval(e.left, f), self.eval(e.right, f))

    def e_Compare(self, e, f):
        left = self.eval(e.left, f)
        result = True
        n = len(e.ops)
        for i, (op, r) in enumerate(zip(e.ops, e.comparators)):
            right = self.eval(r, f)
            c = self.compare(op, left, right)
            if i < n - 1:
                if isinstance(c, SymBool) and all(self._simple_expr(x) for x in e.comparators[i + 1:]):
                    # chained comparison of pure operands: conjoin instead of forking
                    acc = c
                    for op2, r2 in zip(e.ops[i + 1:], e.comparators[i + 1:]):
                        nxt = self.eval(r2, f)
                        acc = self.and_(acc, self.compare(op2, right, nxt))
                        right = nxt
                    return acc
                if not self.truth(c):
                    return False
            result = c
            left = right
        return result

    def e_Attribute(self, e, f):
        return self.getattr(self.eval(e.value, f), e.attr)

    def getattr(self, obj, name):
        if isinstance(obj, Sym):
            if isinstance(obj, LazyStr):
                obj = self.force_str(obj)
            # a name the native type does not have is an AttributeError here too (hasattr(text, "DESCRIPTOR") is False)
            if isinstance(obj, (SymStr, str)):
                if not hasattr(str, name):
                    raise AttributeError(f"'str' object has no attribute '{name}'")
                return StrMethod(obj, name)
            if isinstance(obj, SymBytes):
                if not hasattr(bytearray, name) and not hasattr(bytes, name):
                    raise AttributeError(f"'bytes' object has no attribute '{name}'")
                return BytesMethod(obj, name)
            if isinstance(obj, (SymInt, SymBV)):
                if not hasattr(int, name):
                    raise AttributeError(f"'int' object has no attribute '{name}'")
                return IntMethod(obj, name)
            if isinstance(obj, SymFloat):
                if not hasattr(float, name):
                    raise AttributeError(f"'float' object has no attribute '{name}'")
                return FloatMethod(obj, name)
            if isinstance(obj, SymDT):
                from . import dtmodels
                return dtmodels.dt_attr(self, obj, name)
            if isinstance(obj, SymTD):
                from . import dtmodels
                return dtmodels.td_attr(self, obj, name)
            raise AttributeError(f"{type(obj).__name__} has no attribute {name}")
        if isinstance(obj, SuperProxy):
            return obj.resolve(self, name)
        hook = self.getattr_hooks.get(type(obj))
        if hook is not None:
            r = hook(self, obj, name)
            if r is not NotImplemented:
                return r
        if isinstance(obj, type):
            d = _find_in_mro(obj, name)
            if isinstance(d, (classmethod, staticmethod)):
                return d.__get__(None, obj)
            return getattr(obj, name)
        cls = type(obj)
        d = _find_in_mro(cls, name)
        if isinstance(d, property):
            return self.call(d.fget, [obj], {})
        if isinstance(d, functools.cached_property):
            dd = getattr(obj, "__dict__", {})
            if name in dd:
                return dd[name]
            v = self.call(d.func, [obj], {})
            dd[name] = v
            return v
        if d is None or name in getattr(obj, "__dict__", ()):
            ga = _find_in_mro(cls, "__getattr__")
            try:
                return getattr(obj, name) if ga is None or not self.interpretable(ga) else object.__getattribute__(obj, name)
            except AttributeError:
                if ga is not None and self.interpretable(ga):
                    return self.call_function(ga, [obj, name], {})
                raise
        if isinstance(d, Closure):
            return types.MethodType(d, obj)
        return getattr(obj, name)

    getattr_hooks = {}

    def e_Subscript(self, e, f):
        return self.getitem(self.eval(e.value, f), self.eval_index(e.slice, f))

    def eval_index(self, s, f):
        if isinstance(s, ast.Slice):
            return slice(self.eval(s.lower, f) if s.lower else None,
                         self.eval(s.upper, f) if s.upper else None,
                         self.eval(s.step, f) if s.step else None)
        return self.eval(s, f)

    def getitem(self, obj, idx):
        if type(obj).__name__ == "SymBlob":
            from . import blob
            return blob.getitem(self, obj, idx)
        if isinstance(obj, LazyStr):
            obj = self.force_str(obj)
        if isinstance(idx, SymBool):
            idx = mkint(zint(idx))
        if isinstance(obj, (SymStr, SymBytes)):
            seq = obj.cs if isinstance(obj, SymStr) else obj.bs
            if isinstance(idx, slice):
                sl = self.conc_slice(idx, len(seq))
                return mkstr(seq[sl]) if isinstance(obj, SymStr) else mkbytes(seq[sl], obj.mutable)
            k = self.conc_index(idx, len(seq), "string index out of range" if isinstance(obj, SymStr) else "index out of range")
            v = seq[k]
            return mkstr([v]) if isinstance(obj, SymStr) else v
        if isinstance(idx, slice):
            if deep_sym(idx.start) or deep_sym(idx.stop) or deep_sym(idx.step):
                idx = self.conc_slice(idx, self.length(obj))
            gi = _find_in_mro(type(obj), "__getitem__")
            if gi is not None and self.interpretable(gi):
                return self.call_function(gi, [obj, idx], {})
            return obj[idx]
        if isinstance(obj, dict):
            symkey = is_sym(idx) or (isinstance(idx, tuple) and deep_sym(idx))
            ent = self.symdicts.get(id(obj))
            if ent is not None:
                for k, v in reversed(ent[1]):
                    c = self.cmp("Eq", idx, k)
                    if c is False:
                        continue
                    if self.truth(c):
                        return v
            if symkey:
                for k in obj:
                    c = self.cmp("Eq", idx, k)
                    if c is False:
                        continue
                    if self.truth(c):
                        return obj[k]
                miss = _find_in_mro(type(obj), "__missing__")
                if miss is not None:
                    import collections
                    if isinstance(obj, collections.defaultdict) and obj.default_factory is not None:
                        v = self.call(obj.default_factory, [], {})
                        self.symdicts.setdefault(id(obj), (obj, []))[1].append((idx, v))
                        return v
                    raise Unsupported("dict subclass miss with symbolic key")
                raise KeyError(_ExcArg(idx))
            return obj[idx]
        if isinstance(idx, SymInt) and isinstance(obj, (list, tuple, str)) and len(obj) > 4 and \
                all(isinstance(x, str) and len(x) == 1 for x in obj):
            # table of single characters indexed by a symbolic int: one if-then-else chain instead of one path per entry
            inr = self.and_(self.cmp("GtE", idx, 0), self.cmp("Lt", idx, len(obj)))
            if self.truth(inr):
                # runs of entries with ord(entry) - index constant collapse into one linear piece each
                runs = []
                for k, ch in enumerate(obj):
                    off = ord(ch) - k
                    if runs and runs[-1][1] == off:
                        continue
                    runs.append((k, off))
                t = idx.t + runs[-1][1]
                for (k0, off), (k1, _) in zip(reversed(runs[:-1]), reversed(runs[1:])):
                    t = z3.If(idx.t < k1, idx.t + off, t)
                return mkstr([self.define_var("tab", t, min(ord(x) for x in obj), max(ord(x) for x in obj))])
        if is_sym(idx) and isinstance(obj, (list, tuple, str, bytes, bytearray, range)):
            return obj[self.conc_index(idx, len(obj), "%s index out of range" % type(obj).__name__)]
        ga = _find_in_mro(type(obj), "__getitem__")
        if ga is not None and self.interpretable(ga):
            return self.call_function(ga, [obj, idx], {})
        if isinstance(ga, Closure):
            return ga.invoke(self, [obj, idx], {})
        if is_sym(idx):
            raise Unsupported(f"symbolic index into {type(obj).__name__}")
        return obj[idx]

    # ------------------------------------------------------------------ strings
    def e_JoinedStr(self, e, f):
        parts = []
        for v in e.values:
            if isinstance(v, ast.Constant):
                parts.append(v.value)
                continue
            x = self.eval(v.value, f)
            if v.format_spec is not None:
                spec = self.eval(v.format_spec, f)
                parts.append(self.format_value(x, spec))
            else:
                parts.append(self.to_str(x, conv=v.conversion))
        return self.concat_str(parts)

    def format_value(self, x, spec):
        if isinstance(spec, LazyStr):
            spec = self.force_str(spec)
        from .models import SymDecimal
        if not deep_sym(x) and not is_sym(spec) and not isinstance(x, SymDecimal):
            return format(x, spec)
        from .models import sym_format
        return sym_format(self, x, spec)

    def concat_str(self, parts):
        if all(isinstance(p, str) for p in parts):
            return "".join(parts)
        if any(isinstance(p, LazyStr) for p in parts):
            out = []
            for p in parts:
                if isinstance(p, LazyStr):
                    out.extend(p.parts)
                else:
                    out.append(p)
            return LazyStr(out)
        cs = []
        for p in parts:
            if isinstance(p, (str, SymStr)):
                cs.extend(chars(p))
            else:
                raise TypeError("can only concatenate str (not %s) to str" % type(p).__name__)
        return mkstr(cs)

    def to_str(self, x, conv=-1):
        if isinstance(x, (SymStr, LazyStr)):
            if conv == 114:
                return LazyStr(["'", x, "'"]) if isinstance(x, SymStr) else LazyStr(["'"] + x.parts + ["'"])
            return x
        if isinstance(x, (SymInt, SymBV)):
            return LazyStr([("int", x)])
        if isinstance(x, SymFloat) and x.noise is not None:
            raise Unsupported("str/repr of a float carrying rounding noise (17 significant digits)")
        if isinstance(x, SymFloat) and x.dec is not None:
            return LazyStr([("float", x)])
        if isinstance(x, SymFloat) and x.ival is not None and x.noise is None:
            # an integer-valued float below 2^53 prints as the integer followed by '.0'
            n = x.ival if isinstance(x.ival, (int, SymInt)) else SymInt(x.ival)
            if self.must(self.and_(self.cmp("Gt", n, -2 ** 53), self.cmp("Lt", n, 2 ** 53))):
                return LazyStr([("int", n), ".0"])
        if isinstance(x, SymBool):
            return "True" if self.truth(x) else "False"
        if is_sym(x) or isinstance(x, Opaque):
            return LazyStr([("opaque", x)])
        if isinstance(x, tuple) and hasattr(type(x), "_fields") and deep_sym(x) and \
                (conv == 114 or "__str__" not in type(x).__dict__):
            # collections.namedtuple repr: Name(field=repr, ...)
            parts = [type(x).__name__ + "("]
            for i, (fname, val) in enumerate(zip(type(x)._fields, x)):
                parts.append(("" if i == 0 else ", ") + fname + "=")
                r = self.to_str(val, 114)
                parts.extend(r.parts if isinstance(r, LazyStr) else [r])
            parts.append(")")
            return LazyStr(parts)
        if isinstance(x, (tuple, list, dict)) and deep_sym(x):
            return LazyStr([("opaque", x)])
        if isinstance(x, BaseException) and any(isinstance(a, _ExcArg) for a in x.args):
            return LazyStr([("opaque", x)])
        st = _find_in_mro(type(x), "__repr__" if conv == 114 else "__str__")
        if st is not None and self.interpretable(st):
            return self.call_function(st, [x], {})
        if conv == 114:
            return repr(x)
        if conv == 97:
            return ascii(x)
        return str(x)

    def force_str(self, x):
        """expand a rope into SymStr / str (forks on the digits of symbolic ints)"""
        if not isinstance(x, LazyStr):
            return x
        cs = []
        for p in x.parts:
            if isinstance(p, (str, SymStr)):
                cs.extend(chars(p))
            elif isinstance(p, tuple) and p[0] == "int":
                cs.extend(chars(self.int_to_str(p[1])))
            elif isinstance(p, tuple) and p[0] == "float":
                cs.extend(self.float_repr_chars(p[1]))
            else:
                raise Unsupported("inspection of a string containing an opaque value")
        return mkstr(cs)

    def float_repr_chars(self, f):
        """repr(float) of a decimal-defined float: CPython's 'r' format (scientific iff e10 < -4 or e10 >= 16)"""
        neg, digits, e10 = f.dec
        ds = [self.op("Add", d, 48) for d in digits]
        out = []
        if self.truth(neg):
            out.append(45)
        n = len(ds)
        if e10 < -4 or e10 >= 16:
            out.append(ds[0])
            if n > 1:
                out.append(46)
                out.extend(ds[1:])
            out.extend(ord(c) for c in ("e-" if e10 < 0 else "e+") + ("%02d" % abs(e10)))
        elif e10 < 0:
            out.extend([48, 46] + [48] * (-e10 - 1) + ds)
        else:
            ip = ds[: e10 + 1] + [48] * max(0, e10 + 1 - n)
            fp = ds[e10 + 1:] or [48]
            out.extend(ip + [46] + fp)
        return out

    def int_to_str(self, x, max_digits=40):
        if isinstance(x, int):
            return str(x)
        neg = self.truth(self.cmp("Lt", x, 0))
        a = self.neg(x) if neg else x
        nd = 1
        while self.truth(self.cmp("GtE", a, 10 ** nd)):
            nd += 1
            if nd > max_digits:
                raise Unsupported("int too long to print")
        cs = [45] if neg else []
        if isinstance(a, SymBV) and a.signed:
            a = mkbv(z3.Extract(a.w - 2, 0, a.t), False) if a.w > 1 else a
        rest = a
        digs = []
        for i in range(nd):
            if i == nd - 1:
                d = rest
                if isinstance(d, SymInt):
                    # the leading digit as a variable of its own with its range known statically (cheap interval
                    # decisions on the character later on)
                    dv = z3.Int("_dg_%d" % self.fresh_id())
                    self.add_fact(dv == d.t)
                    self.set_bounds(dv, 1 if nd > 1 else 0, 9)
                    d = SymInt(dv)
            else:
                d = self.op("Mod", rest, 10)
                rest = self.op("FloorDiv", rest, 10)
            if isinstance(d, SymBV):
                d = mkbv(z3.Extract(3, 0, d.t), False) if d.w > 4 else d
            digs.append(self.op("Add", d, 48))
        cs.extend(reversed(digs))
        return mkstr(cs)

    # ------------------------------------------------------------------ comprehensions / calls
    def e_ListComp(self, e, f):
        out = []
        self.comp(e.generators, 0, f, lambda fr: out.append(self.eval(e.elt, fr)))
        return out

    def e_GeneratorExp(self, e, f):
        # Python semantics: the outermost iterable is evaluated now, everything else when the generator is consumed -
        # an exception raised by the element expression surfaces where the generator is iterated
        first = self.eval(e.generators[0].iter, f)
        return LazyGen(self.eval(e.elt, fr) for fr in self.comp_iter(e.generators, 0, f, first))

    def comp_iter(self, gens, i, f, first=None):
        if i == len(gens):
            yield f
            return
        g = gens[i]
        src = first if i == 0 else self.eval(g.iter, f)
        for item in self.iterate(src):
            fr = Frame({}, f.globals, f.fn, f)
            fr.line_base = f.line_base
            self.assign(g.target, item, fr)
            if all(self.truth(self.eval(c, fr)) for c in g.ifs):
                yield from self.comp_iter(gens, i + 1, fr)

    def e_SetComp(self, e, f):
        items = self.e_ListComp(e, f)
        out = set()
        for x in items:
            self.set_add(out, x)
        return out

    def set_add(self, st, item):
        if not deep_sym(item):
            ent = self.symsets.get(id(st))
            if ent is None:
                st.add(item)
                return
        ent = self.symsets.setdefault(id(st), (st, []))[1]
        for k in list(st) + ent:
            c = self.cmp("Eq", item, k)
            if c is False:
                continue
            if self.truth(c):
                return
        if deep_sym(item):
            ent.append(item)
        else:
            st.add(item)

    def e_DictComp(self, e, f):
        out = {}

        def add(fr):
            self.setitem(out, self.eval(e.key, fr), self.eval(e.value, fr))
        self.comp(e.generators, 0, f, add)
        return out

    def comp(self, gens, i, f, emit):
        if i == len(gens):
            emit(f)
            return
        g = gens[i]
        for item in self.iterate(self.eval(g.iter, f)):
            fr = Frame({}, f.globals, f.fn, f)
            fr.line_base = f.line_base
            self.assign(g.target, item, fr)
            if all(self.truth(self.eval(c, fr)) for c in g.ifs):
                self.comp(gens, i + 1, fr, emit)

    def e_Yield(self, e, f):
        f.func_frame().yields.append(self.eval(e.value, f) if e.value else None)

    def e_YieldFrom(self, e, f):
        f.func_frame().yields.extend(self.iterate(self.eval(e.value, f)))

    def e_Starred(self, e, f):
        raise Unsupported("starred expression")

    def e_Call(self, e, f):
        fn = self.eval(e.func, f)
        args = self.eval_elts(e.args, f)
        kwargs = {}
        for k in e.keywords:
            if k.arg is None:
                kwargs.update(self.eval(k.value, f))
            else:
                kwargs[k.arg] = self.eval(k.value, f)
        if fn is super:
            if args:
                return SuperProxy(args[0], args[1])
            ff = f.func_frame()
            return SuperProxy(ff.fn_class(), ff.first_arg())
        return self.call(fn, args, kwargs)

    def iterate(self, it):
        if isinstance(it, LazyGen):
            return it
        if isinstance(it, LazyStr):
            it = self.force_str(it)
        if isinstance(it, SymStr):
            return [mkstr([c]) for c in it.cs]
        if isinstance(it, SymBytes):
            return list(it.bs)
        if isinstance(it, SymRange):
            return it.items(self)
        if isinstance(it, Sym):
            raise TypeError(f"'{type(it).__name__}' object is not iterable")
        if isinstance(it, dict) and id(it) in self.symdicts:
            return list(it.keys()) + [k for k, _ in self.symdicts[id(it)][1]]
        if isinstance(it, set) and id(it) in self.symsets:
            return list(it) + list(self.symsets[id(it)][1])
        if isinstance(it, (list, tuple, dict, str, bytes, bytearray, range, set, frozenset)):
            return it
        im = _find_in_mro(type(it), "__iter__")
        if im is not None and self.interpretable(im):
            return self.iterate(self.call_function(im, [it], {}))
        if im is None:
            gi = _find_in_mro(type(it), "__getitem__")
            if gi is not None and self.interpretable(gi):
                out = []
                i = 0
                while True:
                    try:
                        out.append(self.call_function(gi, [it, i], {}))
                    except IndexError:
                        return out
                    i += 1
                    if i > self.loop_bound:
                        raise Unsupported("unwinding assertion: __getitem__ iteration")
        return it


class LazyGen:
    """a generator expression of interpreted code: items are computed by the engine when the consumer asks"""

    def __init__(self, gen):
        self.gen = gen

    def __iter__(self):
        return self

    def __next__(self):
        return next(self.gen)


class _NoFork(list):
    def append(self, x):
        raise Unsupported("known-finding region must be a branch-free predicate")


class _ExcArg:
    """placeholder for a symbolic value captured in an exception's args (never inspected)"""

    def __init__(self, v):
        self.v = v

    def __repr__(self):
        return "<symbolic>"

    __str__ = __repr__


def _exc_where(exc):
    return None


def site_kind(site):
    return site


def _fp_to_py(x):
    import struct as _s
    if z3.is_fp_value(x) or True:
        try:
            if x.isNaN():
                return float("nan")
            if x.isInf():
                return float("-inf") if x.isNegative() else float("inf")
            bv = z3.simplify(z3.fpToIEEEBV(x))
            return _s.unpack("<d", _s.pack("<Q", bv.as_long()))[0]
        except Exception:
            return float(eval(str(x).replace("oo", "float('inf')")))


def _is_generator(node):
    class V(ast.NodeVisitor):
        found = False

        def visit_Yield(self, n):
            self.found = True

        visit_YieldFrom = visit_Yield

        def visit_FunctionDef(self, n):
            if n is node:
                self.generic_visit(n)

        def visit_Lambda(self, n):
            pass
    v = V()
    v.visit(node)
    return v.found


class SymRange:
    def __init__(self, lo, hi, step=1):
        self.lo, self.hi, self.step = lo, hi, step

    def items(self, eng):
        out = []
        i = self.lo
        n = 0
        while eng.truth(eng.cmp("Lt" if self.step > 0 else "Gt", i, self.hi)):
            out.append(i)
            i = eng.op("Add", i, self.step)
            n += 1
            if n > eng.loop_bound:
                raise Unsupported("unwinding assertion: symbolic range longer than loop bound")
        return out


class Frame:
    def __init__(self, env, globals_, fn, parent):
        self.env = env
        self.globals = globals_
        self.fn = fn
        self.parent = parent
        self.current_exc = None
        self.line_base = 0
        self.globals_decl = set()
        self.nonlocal_decl = set()
        self.is_func = parent is None

    def is_spec(self):
        mod = self.globals.get("__name__", "")
        return mod.startswith("specs")

    def func_frame(self):
        """frame of the enclosing function body (comprehension scopes are children)"""
        f = self
        while not f.is_func and f.parent is not None:
            f = f.parent
        return f

    def first_arg(self):
        return next(iter(self.env.values()))

    def lookup(self, name):
        f = self
        while f is not None:
            if name in f.env:
                return f.env[name]
            f = f.parent
        fn = self.fn
        g = self
        while fn is None and g is not None:
            fn = g.fn
            g = g.parent
        if isinstance(fn, types.FunctionType) and fn.__closure__ and name in fn.__code__.co_freevars:
            return fn.__closure__[fn.__code__.co_freevars.index(name)].cell_contents
        if name in self.globals:
            return self.globals[name]
        try:
            return getattr(builtins, name)
        except AttributeError:
            raise NameError(f"name {name!r} is not defined")

    def store(self, name, v):
        if name in self.globals_decl:
            self.globals[name] = v
            return
        if name in self.nonlocal_decl:
            f = self.parent
            while f is not None:
                if name in f.env:
                    f.env[name] = v
                    return
                f = f.parent
            raise Unsupported("nonlocal to native closure cell")
        self.env[name] = v

    def fn_class(self):
        f = self
        while f is not None and not isinstance(f.fn, types.FunctionType):
            f = f.parent
        fn = f.fn
        if fn.__closure__ and "__class__" in fn.__code__.co_freevars:
            return fn.__closure__[fn.__code__.co_freevars.index("__class__")].cell_contents
        qn = fn.__qualname__.split(".")
        obj = sys.modules[fn.__module__]
        for p in qn[:-1]:
            obj = getattr(obj, p)
        return obj


class Closure:
    """function object created by interpreting a nested def / lambda"""
    engine = None

    def __init__(self, node, frame):
        self.node, self.frame = node, frame
        self.__name__ = getattr(node, "name", "<lambda>")
        self.__qualname__ = self.__name__
        self.__module__ = frame.globals.get("__name__", "")
        a = node.args
        eng = Closure.engine
        self.defaults = [eng.eval(d, frame) for d in a.defaults]
        self.kwdefaults = {k.arg: eng.eval(d, frame) for k, d in zip(a.kwonlyargs, a.kw_defaults) if d is not None}

    def __call__(self, *args, **kwargs):
        return self.invoke(Closure.engine, args, kwargs)

    def __get__(self, obj, objtype=None):
        if obj is None:
            return self
        return types.MethodType(self, obj)

    def invoke(self, eng, args, kwargs):
        env = {}
        eng.bind_args(self.node.args, self, args, kwargs, env, self.defaults, self.kwdefaults)
        fr = Frame(env, self.frame.globals, self.frame.fn, self.frame)
        fr.is_func = True
        fr.line_base = self.frame.line_base
        if isinstance(self.node, ast.Lambda):
            return eng.eval(self.node.body, fr)
        if _is_generator(self.node):
            fr.yields = []
            try:
                eng.exec_block(self.node.body, fr)
            except _Return:
                pass
            return fr.yields
        try:
            eng.exec_block(self.node.body, fr)
        except _Return as r:
            return r.v
        return None


class SuperProxy:
    def __init__(self, cls, obj):
        self.cls, self.obj = cls, obj

    def resolve(self, eng, name):
        mro = (self.obj if isinstance(self.obj, type) else type(self.obj)).__mro__
        i = mro.index(self.cls)
        for k in mro[i + 1:]:
            if name in k.__dict__:
                v = k.__dict__[name]
                if isinstance(v, types.FunctionType):
                    return types.MethodType(v, self.obj)
                if isinstance(v, property):
                    return eng.call(v.fget, [self.obj], {})
                return v.__get__(self.obj, type(self.obj))
        raise AttributeError(name)


class BoundModel:
    """a method of a symbolic value (str/bytes/int/float methods)"""
    _is_model = True

    def __init__(self, s, name):
        self.s, self.name = s, name

    def __call__(self, eng, *args, **kw):
        from . import strmodels
        return strmodels.dispatch(eng, self, args, kw)


class StrMethod(BoundModel):
    kind = "str"


class BytesMethod(BoundModel):
    kind = "bytes"


class IntMethod(BoundModel):
    kind = "int"


class FloatMethod(BoundModel):
    kind = "float"
