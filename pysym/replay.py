"""python -m pysym.replay <replay.json>: re-runs a counterexample natively against /repo's current tree."""
import importlib
import json
import os
import sys

ROOT = os.path.dirname(os.path.dirname(os.path.abspath(__file__)))
sys.path.insert(0, ROOT)


def main():
    from pysym import run
    r = json.load(open(sys.argv[1]))
    run.SPEC = importlib.import_module(r["spec"])
    h = run.harness_by_name(r["harness"])
    out = run.native_outcome(h, run.from_jsonable(r["inputs"]))
    print("replay", r["property"], r["harness"], "site:", r["site"], "inputs:", json.dumps(r["inputs"])[:400])
    print("native outcome:", out)
    want = r["site"].split(":", 1)
    bad = (out[0] == "escaped" and r["site"] == "escaped:" + str(out[1])) or (out[0] == "violation" and out[1] == want[0])
    print("REPRODUCED" if bad else "NOT REPRODUCED")
    sys.exit(1 if bad else 0)


if __name__ == "__main__":
    main()
