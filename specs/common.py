"""Shared stubs: a Table over real cells with a stub model (no protobuf, no I/O)."""
from numbers_parser.cell import Cell, TextCell
from numbers_parser.document import Table
from numbers_parser.model import MergeCells


class StubCache:
    def __init__(self):
        self.dirty = 0

    def mark_dirty(self):
        self.dirty += 1

    def refresh(self):
        pass


class StubModel:
    """implements just the accessor contract Table/Cell use"""

    def __init__(self, header_rows=1, header_cols=1):
        self.name_ref_cache = StubCache()
        self.nrows = None
        self.ncols = None
        self.styles = {}
        self._merge = MergeCells()
        self.hr = header_rows
        self.hc = header_cols

    def merge_cells(self, table_id):
        return self._merge

    def number_of_rows(self, table_id, n=None):
        if n is not None:
            self.nrows = n
        return self.nrows

    def number_of_columns(self, table_id, n=None):
        if n is not None:
            self.ncols = n
        return self.ncols

    def num_header_rows(self, table_id, n=None):
        if n is not None:
            self.hr = n
        return self.hr

    def num_header_cols(self, table_id, n=None):
        if n is not None:
            self.hc = n
        return self.hc


def make_table(R, C, values=True):
    """R x C table; every cell a distinct text value 'r,c' (so moves are observable)"""
    t = Table.__new__(Table)
    t._model = StubModel()
    t._table_id = 7
    t.num_rows = R
    t.num_cols = C
    t._model.nrows = R
    t._model.ncols = C
    t._data = []
    for r in range(R):
        row = []
        for c in range(C):
            if values:
                cell = TextCell(r, c, "v%d,%d" % (r, c))
                cell._model = t._model
                cell._table_id = 7
                cell._set_merge(False)
            else:
                cell = Cell._empty_cell(7, r, c, t._model)
            row.append(cell)
        t._data.append(row)
    return t


def grid_values(t):
    return [[c.value for c in row] for row in t._data]


def check_invariant(t):
    """representation invariant: dimensions == grid shape, every cell reports its own position"""
    ok = len(t._data) == t.num_rows
    for r in range(len(t._data)):
        ok = ok and len(t._data[r]) == t.num_cols
        for c in range(len(t._data[r])):
            cell = t._data[r][c]
            ok = ok and cell.row == r and cell.col == c
    ok = ok and t._model.nrows == t.num_rows and t._model.ncols == t.num_cols
    return ok
