"""C17 - damaged or foreign files fail only with the library's own error types."""
import plistlib
import zipfile
import zlib
from xml.parsers.expat import ExpatError

import numbers_parser.containers as containers_mod
from numbers_parser.containers import ObjectStore
from numbers_parser.exceptions import FileError, FileFormatError, UnsupportedError
from numbers_parser.iwafile import IWAFile, is_iwa_file
from numbers_parser.iwork import IWork

from pysym.api import BoolDom, BytesDom, Cases, Harness, IntDom, assume, concretize, cover, nondet_bool, nondet_bytes, nondet_int

OWN = (FileError, FileFormatError, UnsupportedError)


class Handler:
    def __init__(self):
        self.files = {}
        self.objects = {}

    def store_file(self, filename, blob):
        self.files[filename] = blob

    def store_object(self, filename, identifier, archive):
        self.objects[identifier] = archive

    def allowed_format(self, ext):
        return ext == ".numbers"

    def allowed_version(self, v):
        return True


class Rec:
    def __init__(self, **kw):
        self.__dict__.update(kw)


# ---------------------------------------------------------------- H17a: one archive member
def fake_from_buffer(cls, data, filename=None):
    """nondeterministic outcome of IWAFile.from_buffer: any Exception, or an IWAFile of arbitrary small shape"""
    k = nondet_int("from_buffer-outcome", 0, 5)
    if k == 0:
        raise ValueError("Failed to deserialize")
    if k == 1:
        raise IndexError("index out of range")
    if k == 2:
        raise KeyError("x")
    nchunks = nondet_int("nchunks", 0, 2)
    chunks = []
    for _ in range(nchunks):
        narch = nondet_int("narchives", 0, 2)
        archives = []
        for _ in range(narch):
            nobj = nondet_int("nobjects", 0, 2)
            archives.append(Rec(header=Rec(identifier=nondet_int("id", 0, 10)), objects=["obj"] * nobj))
        chunks.append(Rec(archives=archives))
    return IWAFile(chunks, filename)


def fake_from_buffer_simple(cls, data, filename=None):
    """container-level harness: a member either fails to decode or is one well-formed archive (shapes: H17a)"""
    if nondet_bool("from_buffer-fails"):
        raise ValueError("Failed to deserialize")
    return IWAFile([Rec(archives=[Rec(header=Rec(identifier=1), objects=["obj"])])], filename)


def h17a_member(blob, is_iwa_name):
    """_store_blob on an arbitrary member: only the library's error types may escape"""
    h = Handler()
    w = IWork(handler=h)
    name = "Index/Tables/Tile.iwa" if is_iwa_name else "Data/image.png"
    try:
        w._store_blob(name, blob)
    except OWN:
        cover("rejected")
        return
    assert name in h.files
    cover("stored")


def h17a_sniff(blob):
    """is_iwa_file is total, and accepts exactly buffers tiled by [0x00, 3-byte length, payload] frames"""
    r = is_iwa_file(blob)
    # reference: walk frames
    pos = 0
    ok = True
    n = len(blob)
    while pos < n:
        if pos + 4 > n or blob[pos] != 0:
            ok = False
            break
        ln = blob[pos + 1] + blob[pos + 2] * 256 + blob[pos + 3] * 65536
        pos += 4 + ln
    if ok and pos != n:
        ok = False
    assert r == ok


# ---------------------------------------------------------------- H17b: the container
ZIP_ERRORS = [zipfile.BadZipFile, zlib.error, EOFError, NotImplementedError, RuntimeError]


class FakeZip:
    """a ZipFile whose members may be unreadable in every way the stdlib documents"""

    def __init__(self, encrypted, names, filename="doc.numbers"):
        self.filename = filename
        self.encrypted = encrypted
        self.names = names
        self.filelist = [Rec(filename=n) for n in names]

    def getinfo(self, name):
        if name == ".iwph" and self.encrypted:
            return Rec(filename=name)
        if name in self.names:
            return Rec(filename=name)
        raise KeyError(name)

    def namelist(self):
        return list(self.names)

    def read(self, name):
        k = nondet_int("zip-read-outcome", 0, 6)
        if k < 5:
            raise ZIP_ERRORS[k]("cannot read member")
        if k == 5:
            return b""
        return nondet_bytes("member-bytes", 5)


class FakePath:
    def __init__(self, exists, suffix, is_dir):
        self._exists, self.suffix, self._is_dir = exists, suffix, is_dir

    def exists(self):
        return self._exists

    def is_dir(self):
        return self._is_dir


def fake_plist_loads(data):
    k = nondet_int("plist-outcome", 0, 4)
    if k == 0:
        raise plistlib.InvalidFileException()
    if k == 1:
        raise ExpatError("not well-formed")
    if k == 2:
        return {}
    if k == 3:
        return {"fileFormatVersion": "14.1"}
    return []


class IWorkZ(IWork):
    """IWork whose zip opener hands out the fake zip (ZipFile() itself may refuse the file)"""

    def _open_zipfile(self, filepath):
        if nondet_bool("zip-open-fails"):
            # the real method translates BadZipFile from ZipFile(...)
            msg = "invalid Numbers document"
            raise FileFormatError(msg)
        return self.fake


def h17b_container(exists, good_suffix, encrypted, has_props, has_build, has_iwa, has_data):
    names = []
    if has_props:
        names.append("Metadata/Properties.plist")
    if has_build:
        names.append("Metadata/BuildVersionHistory.plist")
    if has_iwa:
        names.append("Index/Document.iwa")
    if has_data:
        names.append("Data/img.png")
    h = Handler()
    w = IWorkZ(handler=h)
    w.fake = FakeZip(encrypted, names)
    p = FakePath(exists, ".numbers" if good_suffix else ".xlsx", False)
    try:
        w.open(p)
    except OWN:
        cover("rejected")
        return
    cover("opened")
    assert exists and good_suffix and not encrypted and has_props and has_build


class FakeIWork:
    def __init__(self, handler=None):
        self.handler = handler

    def open(self, filepath):
        # a container that passed the metadata checks always delivers its plists as plain files
        self.handler.store_file("Metadata/Properties.plist", b"plist")
        self.handler.store_file("Metadata/BuildVersionHistory.plist", b"plist")
        if nondet_bool("has-data-file"):
            self.handler.store_file("Data/image.png", b"png")
        n = nondet_int("objects-in-container", 0, 2)
        for i in range(n):
            self.handler.store_object("Index/Document.iwa", i + 1, "obj")


def h17c_store():
    """ObjectStore initialisation over a container that yields any number of objects (zero included)"""
    try:
        s = ObjectStore("whatever.numbers")
    except OWN:
        cover("rejected")
        return
    assert len(s) >= 1
    assert s._max_id % 1000000 == 0 and s._max_id >= 1


HARNESSES = [
    Harness("H17a", h17a_member, lambda tier: dict(blob=BytesDom(4), is_iwa_name=BoolDom()), bounds=""),
]


def _member(n):
    return Harness(f"H17a-n{n}", h17a_member, dict(blob=BytesDom(n), is_iwa_name=BoolDom()),
                   bounds=f"member of exactly {n} fully symbolic bytes; '.iwa' or other member name",
                   stubs=["IWAFile.from_buffer: nondeterministic - raises some Exception or returns 0..2 chunks x 0..2 archives x 0..2 objects "
                          "(its own try/except funnels every decoding fault into Exception)"],
                   outside=["which byte patterns make snappy/protobuf fail (C libraries): every outcome is allowed for every input"],
                   patches=[(IWAFile, "from_buffer", classmethod(fake_from_buffer))])


def _sniff(n):
    return Harness(f"H17a-sniff-n{n}", h17a_sniff, dict(blob=BytesDom(n)),
                   bounds=f"buffer of exactly {n} fully symbolic bytes")


_B = dict(exists=BoolDom(), good_suffix=BoolDom(), encrypted=BoolDom(), has_props=BoolDom(), has_build=BoolDom(),
          has_iwa=BoolDom(), has_data=BoolDom())
HARNESSES = [_member(n) for n in range(0, 9)] + [_sniff(n) for n in range(0, 10)] + [
    Harness("H17b", h17b_container, _B,
            bounds="path missing/present, wrong/right suffix, encrypted marker, any subset of {Properties.plist, BuildVersionHistory.plist, "
                   "one .iwa, one data file}; every member read may fail with BadZipFile, zlib.error, EOFError, NotImplementedError, "
                   "RuntimeError or return empty / arbitrary 5 bytes; plist parse may fail or lack the key",
            stubs=["zipfile.ZipFile -> FakeZip (nondeterministic member reads per stdlib documentation)",
                   "plistlib.loads -> nondeterministic {InvalidFileException, ExpatError, {}, {version}, non-dict}",
                   "IWAFile.from_buffer nondeterministic (as H17a)", "pathlib.Path -> exists/suffix/is_dir stub"],
            outside=["which byte offsets of a real file produce which fault (zipfile internals)", "package-folder form"],
            patches=[(IWAFile, "from_buffer", classmethod(fake_from_buffer_simple)), (plistlib, "loads", fake_plist_loads)]),
    Harness("H17c", h17c_store, dict(),
            bounds="container delivering its metadata files, optionally a data file, and 0, 1 or 2 objects", stubs=["IWork replaced by a stub that stores the files and n objects"],
            patches=[(containers_mod, "IWork", FakeIWork)]),
]
QUICK = [f"H17a-n{n}" for n in range(0, 7)] + [f"H17a-sniff-n{n}" for n in range(0, 8)] + ["H17b", "H17c"]
TIER_HARNESSES = {"quick": QUICK, "thorough": [h.name for h in HARNESSES]}
PROPERTY = "C17"
