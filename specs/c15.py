"""C15 (partial) - borders: a stroke drawn along a cell edge is reported by that cell and, as the opposite side, by the
neighbour sharing the edge; where strokes overlap the most recent one wins (open document)."""
from numbers_parser.cell import RGB, Border
from numbers_parser.model import _NumbersModel

from pysym.api import BoolDom, Cases, Harness, IntDom, assume, concretize, cover
from specs.common import StubModel, make_table

OPP = {"top": "bottom", "bottom": "top", "left": "right", "right": "left"}
DELTA = {"top": (-1, 0), "bottom": (1, 0), "left": (0, -1), "right": (0, 1)}


class BorderModel(StubModel):
    set_cell_border = _NumbersModel.set_cell_border
    cell_for_stroke = _NumbersModel.cell_for_stroke

    def __init__(self):
        StubModel.__init__(self)
        self._table_data = {}
        self._row_heights = {7: {0: 20, 1: 20, 2: 20}}
        self._col_widths = {7: {0: 98, 1: 98, 2: 98}}
        self.max_order = 0
        self.strokes = []

    def extract_strokes(self, table_id):
        pass

    def add_stroke(self, table_id, row, col, side, border_value, length):
        """the order-stamp contract of the real add_stroke (its run patching is protobuf construction): every recorded
        stroke gets the next order number"""
        self.max_order += 1
        border_value._order = self.max_order
        self.strokes.append((row, col, side, length, border_value))


def table3():
    t = make_table(3, 3)
    m = BorderModel()
    m.nrows, m.ncols = 3, 3
    t._model = m
    for r in t._data:
        for c in r:
            c._model = m
    m._table_data[7] = t._data
    return t


def side_of(cell, side):
    return getattr(cell.border, side)


def h15a_one_stroke(row, col, side, length):
    t = table3()
    assume(0 <= row < 3 and 0 <= col < 3 and 1 <= length <= 2)
    horizontal = side in ("top", "bottom")
    assume((col if horizontal else row) + length <= 3)
    b = Border(2.0, RGB(255, 0, 0), "solid")
    t.set_cell_border(row, col, side, b, length)
    row = concretize(row)
    col = concretize(col)
    length = concretize(length)
    covered = [(row, col + i) if horizontal else (row + i, col) for i in range(length)]
    dr, dc = DELTA[side]
    for r in range(3):
        for c in range(3):
            cell = t.cell(r, c)
            for s in ("top", "right", "bottom", "left"):
                want = None
                if (r, c) in covered and s == side:
                    want = b
                if (r - dr, c - dc) in covered and s == OPP[side]:
                    want = b
                assert side_of(cell, s) is want
    # sizes cached for the touched rows / columns are invalidated so that the border allowance is re-read
    assert b._order >= 1


def h15b_overlap(row, col, side, from_neighbour):
    """two strokes on the same edge, the second possibly addressed from the neighbouring cell: the later one is reported
    by both cells that share the edge"""
    t = table3()
    assume(0 <= row < 3 and 0 <= col < 3)
    dr, dc = DELTA[side]
    nr, nc = row + dr, col + dc
    first = Border(1.0, RGB(255, 0, 0), "solid")
    second = Border(3.0, RGB(0, 0, 255), "dashes")
    t.set_cell_border(row, col, side, first)
    if from_neighbour:
        assume(0 <= nr < 3 and 0 <= nc < 3)
        t.set_cell_border(nr, nc, OPP[side], second)
    else:
        t.set_cell_border(row, col, side, second)
    assert side_of(t.cell(row, col), side) is second
    if 0 <= nr < 3 and 0 <= nc < 3:
        assert side_of(t.cell(nr, nc), OPP[side]) is second
    assert second._order > first._order


def table43_merged():
    """4x3 table with B2:B3 merged (anchor (1,1), placeholder (2,1))"""
    t = make_table(4, 3)
    m = BorderModel()
    m.nrows, m.ncols = 4, 3
    t._model = m
    for r in t._data:
        for c in r:
            c._model = m
    m._table_data[7] = t._data
    t.merge_cells("B2:B3")
    return t


def h15c_merged_neighbour(row, col, side, older):
    """a stroke drawn on a plain cell's edge that borders a merged block is reported, as the opposite side, by the
    block's cell on that edge; a newer stroke wins over one drawn earlier from the block's side"""
    t = table43_merged()
    assume(0 <= row < 4 and 0 <= col < 3)
    assume(not (col == 1 and 1 <= row <= 2))            # the drawing cell is outside the block
    dr, dc = DELTA[side]
    nr, nc = row + dr, col + dc
    assume(nc == 1 and 1 <= nr <= 2)                    # ... and its edge borders the block
    first = Border(1.0, RGB(255, 0, 0), "solid")
    second = Border(3.0, RGB(0, 0, 255), "dashes")
    if older:
        t.set_cell_border(nr, nc, OPP[side], first)     # earlier stroke, addressed from the merged cell
    t.set_cell_border(row, col, side, second)
    assert side_of(t.cell(row, col), side) is second
    assert side_of(t.cell(nr, nc), OPP[side]) is second


# ------------------------------------------------------------------------------------------------ saved stroke layers
class Run:
    """a stroke run record (StrokeRunArchive seen as an attribute bag): origin, length, order, and the Border it carries"""

    def __init__(self, origin=0, length=0, order=0, border=None):
        self.origin, self.length, self.order, self.border = origin, length, order, border

    def CopyFrom(self, other):
        self.origin, self.length, self.order, self.border = other.origin, other.length, other.order, other.border


def new_run(eng=None, *a, **kw):
    return Run()


class Ref:
    def __init__(self, identifier=0):
        self.identifier = identifier


def new_ref(eng=None, *a, **kw):
    return Ref(kw.get("identifier", 0))


class Rec:
    def __init__(self, **kw):
        self.__dict__.update(kw)


class LayerStore:
    def __init__(self):
        self.store = {}
        self.next = 100

    def __getitem__(self, k):
        return self.store[k]

    def create_object_from_dict(self, iwa, d, cls):
        self.next += 1
        obj = Rec(stroke_runs=[], **d)
        self.store[self.next] = obj
        return self.next, obj


class StrokeModel:
    """self for the real _NumbersModel.add_stroke (the run patching that decides what the SAVED file says)"""
    add_stroke = _NumbersModel.add_stroke

    def __init__(self):
        self.objects = LayerStore()
        self.sidecar = Rec(max_order=0, row_count=0, column_count=0, top_row_stroke_layers=[], right_column_stroke_layers=[],
                           bottom_row_stroke_layers=[], left_column_stroke_layers=[])
        self.objects.store[7] = Rec(stroke_sidecar=Ref(8), number_of_rows=8, number_of_columns=8)
        self.objects.store[8] = self.sidecar

    def create_stroke(self, origin, length, border_value):
        """contract of the real create_stroke (protobuf construction): a run record for [origin, origin+length) carrying the
        border and its order"""
        return Run(origin, length, border_value._order, border_value)


LINE = 6


def h15d_layers(cfg, o1, l1, o2, l2, o3, l3):
    """strokes drawn one after the other along the same line: in the stored runs, read back with 'highest order wins',
    every position shows the most recent stroke that covers it and nothing else - the saved file agrees with the open
    document"""
    side, three = cfg
    m = StrokeModel()
    strokes = [(o1, l1), (o2, l2)] + ([(o3, l3)] if three else [])
    borders = []
    for o, ln in strokes:
        assume(0 <= o and 1 <= ln and o + ln <= LINE)
        b = Border(1.0 + len(borders), RGB(255, 0, 0), "solid")
        borders.append(b)
        if side in ("top", "bottom"):
            m.add_stroke(7, 2, o, side, b, ln)
        else:
            m.add_stroke(7, o, 2, side, b, ln)
    layers = {"top": m.sidecar.top_row_stroke_layers, "bottom": m.sidecar.bottom_row_stroke_layers,
              "left": m.sidecar.left_column_stroke_layers, "right": m.sidecar.right_column_stroke_layers}[side]
    assert len(layers) == 1                                   # one layer per line
    layer = m.objects[layers[0].identifier]
    assert layer.row_column_index == 2
    for run in layer.stroke_runs:
        assert run.length >= 1 and 0 <= run.origin and run.origin + run.length <= LINE
    for p in range(LINE):
        want = None
        for (o, ln), b in zip(strokes, borders):
            if o <= p < o + ln:
                want = b                                      # the most recent stroke covering p
        got = None
        best = -1
        for run in layer.stroke_runs:
            if run.origin <= p < run.origin + run.length and run.order > best:
                best = run.order
                got = run.border
        assert got is want
    for b in borders:
        assert b._order >= 1
    assert borders[1]._order > borders[0]._order


SIDES = ["top", "right", "bottom", "left"]
OUT = ["style attribute round trip (paragraph / cell style archives: nested protobuf construction and lookup)",
       "background images, fonts", "re-derivation of cell borders from the stored runs on reopen beyond 'highest order wins' (protobuf I/O)",
       "strokes addressed to interior edges of merged blocks"]
HARNESSES = [
    Harness("H15a", h15a_one_stroke, dict(row=IntDom(), col=IntDom(), side=Cases(SIDES), length=IntDom()),
            bounds="3x3 table, stroke of length 1..2 from any cell on any side (position symbolic)",
            stubs=["model stub: add_stroke reduced to its order stamp; extract_strokes no-op; real set_cell_border / cell_for_stroke"],
            outside=OUT),
    Harness("H15b", h15b_overlap, dict(row=IntDom(), col=IntDom(), side=Cases(SIDES), from_neighbour=BoolDom()),
            bounds="3x3 table, two strokes on the same edge from either of the two cells sharing it"),
]
HARNESSES.append(
    Harness("H15c", h15c_merged_neighbour, dict(row=IntDom(), col=IntDom(), side=Cases(SIDES), older=BoolDom()),
            bounds="4x3 table with a 2x1 merged block; stroke on any exterior edge of the block drawn from the plain neighbour, "
                   "with or without an earlier stroke drawn from the block's side"))
from numbers_parser.generated import TSPMessages_pb2 as TSPMessages  # noqa: E402
from numbers_parser.generated import TSTArchives_pb2 as TSTArchives  # noqa: E402

import numbers_parser.model as modelmod  # noqa: E402


class ModProxy:
    """a generated protobuf module with a few message constructors replaced by attribute bags"""

    def __init__(self, real, **over):
        self._real = real
        self.__dict__.update(over)

    def __getattr__(self, name):
        return getattr(self._real, name)


FAKE_TST = ModProxy(TSTArchives, StrokeLayerArchive=Rec(StrokeRunArchive=Run))
FAKE_TSP = ModProxy(TSPMessages, Reference=Ref)
HARNESSES.append(
    Harness("H15d", h15d_layers,
            lambda tier: dict(cfg=Cases([("top", False), ("top", True), ("left", False)] if tier == "quick" else
                                        [(sd, th) for sd in SIDES for th in (False, True)]),
                              o1=IntDom(), l1=IntDom(), o2=IntDom(), l2=IntDom(), o3=IntDom(), l3=IntDom()),
            bounds="2 or 3 strokes of every start and length along one line of 6 cells (symbolic); quick: top with 2 and 3 strokes, left "
                   "with 2; thorough: all four sides with 2 and 3 strokes",
            stubs=["stroke run / layer / sidecar records = attribute bags; create_stroke reduced to its contract (a run record with "
                   "origin, length, order and the border); object store stub"],
            patches=[(modelmod, "TSTArchives", FAKE_TST), (modelmod, "TSPMessages", FAKE_TSP)]))
PROPERTY = "C15"
