"""in-process single-thread runner for development: tools/dbg.py C10 H10b [maxpaths] [tier]"""
import sys, os, time, importlib, cProfile, pstats
ROOT = os.path.dirname(os.path.dirname(os.path.abspath(__file__)))
sys.path.insert(0, ROOT)
sys.setrecursionlimit(20000)
from pysym import run, api
pid, hname = sys.argv[1], sys.argv[2]
maxp = int(sys.argv[3]) if len(sys.argv) > 3 else 50
run.TIER = sys.argv[4] if len(sys.argv) > 4 else "quick"
run.SPEC = importlib.import_module("specs." + pid.lower())
run.KNOWN = run.load_known()["findings"]
h = run.harness_by_name(hname)
roots = run.roots_of(h, run.TIER)
t0 = time.time()
prof = cProfile.Profile() if os.environ.get("PROF") else None
for case in roots:
    if prof: prof.enable()
    r = run.worker_task((hname, case, [[]], maxp, None, 5, 0))
    if prof: prof.disable()
    print(case, {k: (round(v, 2) if isinstance(v, float) else v) for k, v in r["stats"].items()}, "left", len(r["leftover"]), "err", r["error"])
    for v in r["violations"][:5]: print("  VIOL", str(v)[:400])
    for m in r["mismatches"][:3]: print("  MISMATCH", str(m)[:600])
    for w in r["witnesses"][:2]: print("  wit", str(w)[:300])
print("wall", round(time.time() - t0, 2))
if prof:
    pstats.Stats(prof).sort_stats("cumulative").print_stats(35)
