"""Symbolic value proxies used by the pysym interpreter.

Every proxy raises on native inspection (bool/int/index/hash/len/iter/str/format): repository code
that runs natively by accident can carry a proxy around but can never branch on it or print it.
"""
import z3

F64 = z3.Float64()


class Unsupported(BaseException):
    """A construct outside the supported subset was reached: the run is inconclusive."""


class SolverUnknown(BaseException):
    """The solver answered `unknown` (or timed out): the run is inconclusive."""


class PathAbort(BaseException):
    """Infeasible / pruned path (failed `assume`)."""


class NativeTouch(Unsupported):
    pass


def _touch(name):
    def f(self, *a, **k):
        raise NativeTouch(f"native {name} on {type(self).__name__}")
    return f


class Sym:
    __slots__ = ()
    __bool__ = _touch("__bool__")
    __index__ = _touch("__index__")
    __int__ = _touch("__int__")
    __float__ = _touch("__float__")
    __len__ = _touch("__len__")
    __iter__ = _touch("__iter__")
    __str__ = _touch("__str__")
    __format__ = _touch("__format__")
    __hash__ = _touch("__hash__")
    __eq__ = _touch("__eq__")
    __ne__ = _touch("__ne__")
    __lt__ = _touch("__lt__")
    __le__ = _touch("__le__")
    __gt__ = _touch("__gt__")
    __ge__ = _touch("__ge__")
    __add__ = _touch("__add__")
    __radd__ = _touch("__radd__")
    __contains__ = _touch("__contains__")
    __getitem__ = _touch("__getitem__")


class SymInt(Sym):
    """Python int as a z3 Int (LIA)."""
    __slots__ = ("t",)

    def __init__(self, t):
        self.t = t

    def __repr__(self):
        return f"SymInt({self.t})"


class SymBV(Sym):
    """Python int backed by a bit-vector; value = signed/unsigned reading; operations widen."""
    __slots__ = ("t", "signed")

    def __init__(self, t, signed=False):
        self.t = t
        self.signed = signed

    @property
    def w(self):
        return self.t.size()

    def ext(self, w):
        if w == self.w:
            return self.t
        if w < self.w:
            raise Unsupported("bv narrowing")
        return z3.SignExt(w - self.w, self.t) if self.signed else z3.ZeroExt(w - self.w, self.t)

    def __repr__(self):
        return f"SymBV({self.t},{'s' if self.signed else 'u'}{self.w})"


class SymBool(Sym):
    __slots__ = ("t",)

    def __init__(self, t):
        self.t = t

    def __repr__(self):
        return f"SymBool({self.t})"


class SymFloat(Sym):
    """float. Exactly one representation is set:
    t    : z3 Float64 term
    quot : (a, k) the correctly rounded quotient a / k of an int-valued sym `a` and positive int k
    ival : an int-valued Sym/int whose value the float equals exactly (|v| < 2**53 established)
    dec  : (neg, digits, e10) the double nearest to +-d1.d2...dn x 10^e10 (shortest-repr digits: d1 != 0, dn != 0)
    real : z3 Real term = the exact value of the (finite) double. Results of float operations are fresh Real variables
           constrained by the IEEE-754 round-to-nearest error enclosure (ops.rn): |z - exact| <= 2^-53 |exact| + 2^-120,
           integers below 2^53 are fixed points. A sound over-approximation of binary64 arithmetic in linear real/integer
           arithmetic: everything proved holds for the real doubles; a counterexample must replay natively.
    ideal: only with `real`: (num, den, eps, exact) - forward error analysis shadow: num (Int term / int) over den
           (positive int) is the value the computation would have in exact arithmetic, |real - num/den| <= eps (Fraction,
           derived from static magnitude bounds), and `exact` (Bool term / bool) implies real == num/den. When present the
           double is a fresh Real variable constrained by exactly these two facts (no chain of earlier roundings).
    noise: only with `dec`: a symbolic Int k in [-2, 2]: the double lies k units in the last place away from the double
           nearest to the decimal (the result of multiplying a <= 15-digit decimal double by a power of ten: two
           roundings). Only sign, integrality, truncation and 15-significant-digit rounding are defined on such a value.
    """
    __slots__ = ("t", "quot", "ival", "dec", "real", "ideal", "noise")

    def __init__(self, t=None, quot=None, ival=None, dec=None, real=None, ideal=None, noise=None):
        self.t = t
        self.quot = quot
        self.ival = ival
        self.dec = dec
        self.real = real
        self.ideal = ideal
        self.noise = noise

    def __repr__(self):
        return f"SymFloat(t={self.t}, quot={self.quot}, ival={self.ival}, dec={self.dec}, real={self.real})"


class SymStr(Sym):
    """Concrete-length str; chars are ints or SymInt/SymBV (code points)."""
    __slots__ = ("cs",)

    def __init__(self, cs):
        self.cs = list(cs)

    def __repr__(self):
        return "SymStr(%r)" % (self.cs,)


class SymBytes(Sym):
    """Concrete-length bytes/bytearray; items are ints or SymBV(8)/SymInt."""
    __slots__ = ("bs", "mutable")

    def __init__(self, bs, mutable=False):
        self.bs = list(bs)
        self.mutable = mutable

    def __repr__(self):
        return "SymBytes(%r)" % (self.bs,)


class LazyStr(Sym):
    """Unexpanded string rope: parts are str | SymStr | ('int', sym) | ('opaque', obj)."""
    __slots__ = ("parts",)

    def __init__(self, parts):
        self.parts = list(parts)

    def __repr__(self):
        return "LazyStr(%r)" % (self.parts,)


class Opaque(Sym):
    """An uninterpreted payload (environment value the property does not inspect)."""
    __slots__ = ("name",)

    def __init__(self, name):
        self.name = name

    def __repr__(self):
        return f"Opaque({self.name})"

    # identity semantics are allowed natively
    def __hash__(self):
        return id(self)

    def __eq__(self, other):
        return self is other

    def __ne__(self, other):
        return self is not other


class SymTD(Sym):
    __slots__ = ("us", "src")

    def __init__(self, us=None, src=None):
        self.us, self.src = us, src

    def __repr__(self):
        return f"SymTD(us={self.us}, src={self.src})"


class SymDT(Sym):
    __slots__ = ("us", "src", "fields", "days")

    def __init__(self, us=None, src=None, fields=None, days=None):
        self.us, self.src = us, src
        self.days = days            # whole days since 0001-01-01 when built from fields
        self.fields = fields        # (year, month, day, hour, minute, second, microsecond) when built from fields

    def __repr__(self):
        return f"SymDT(us={self.us}, src={self.src})"



SYMS = (SymBV, SymInt, SymBool, SymFloat, SymStr, SymBytes, LazyStr, SymTD, SymDT)


def is_sym(v):
    return isinstance(v, SYMS) or type(v).__name__ == "SymBlob"


def deep_sym(v, depth=3):
    if isinstance(v, SYMS) or type(v).__name__ == "SymBlob":
        return True
    if depth and isinstance(v, (list, tuple)):
        return any(deep_sym(x, depth - 1) for x in v)
    if depth and isinstance(v, dict):
        return any(deep_sym(x, depth - 1) for x in v.values())
    return False


def bv_const(v):
    if v >= 0:
        return SymBV(z3.BitVecVal(v, max(1, v.bit_length())), False)
    return SymBV(z3.BitVecVal(v, (-v).bit_length() + 1), True)


def bv_common(a, b, extra=0):
    """Bring two int-like values to a common signed width where both are representable."""
    if isinstance(a, int):
        a = bv_const(int(a))
    if isinstance(b, int):
        b = bv_const(int(b))
    wa = a.w + (0 if a.signed else 1)
    wb = b.w + (0 if b.signed else 1)
    w = max(wa, wb) + extra
    if w > 1024:
        raise Unsupported("bv width > 1024")
    return a.ext(w), b.ext(w), w


def mkbv(t, signed):
    t = z3.simplify(t)
    if z3.is_bv_value(t):
        return t.as_signed_long() if signed else t.as_long()
    return SymBV(t, signed)


def zint(v):
    if isinstance(v, SymInt):
        return v.t
    if isinstance(v, SymBV):
        return z3.BV2Int(v.t, is_signed=v.signed)
    if isinstance(v, SymBool):
        return z3.If(v.t, z3.IntVal(1), z3.IntVal(0))
    if isinstance(v, bool):
        return z3.IntVal(int(v))
    if isinstance(v, int):
        return z3.IntVal(int(v))
    raise Unsupported(f"zint {type(v).__name__}")


def zbool(v):
    if isinstance(v, SymBool):
        return v.t
    if isinstance(v, bool):
        return z3.BoolVal(v)
    raise Unsupported(f"zbool {type(v).__name__}")


def mkint(t):
    t = z3.simplify(t)
    if z3.is_int_value(t):
        return t.as_long()
    return SymInt(t)


def mkbool(t):
    t = z3.simplify(t)
    if z3.is_true(t):
        return True
    if z3.is_false(t):
        return False
    return SymBool(t)


def chars(s):
    if isinstance(s, SymStr):
        return s.cs
    if isinstance(s, str):
        return [ord(c) for c in s]
    raise Unsupported(f"chars of {type(s).__name__}")


def as_bytes_list(b):
    if isinstance(b, SymBytes):
        return b.bs
    if isinstance(b, (bytes, bytearray, memoryview)):
        return list(bytes(b))
    raise Unsupported(f"bytes of {type(b).__name__}")


def mkstr(cs):
    """SymStr, or a real str if every char is concrete."""
    if all(isinstance(c, int) for c in cs):
        return "".join(chr(c) for c in cs)
    return SymStr(cs)


def mkbytes(bs, mutable=False):
    if all(isinstance(b, int) for b in bs):
        return bytearray(bs) if mutable else bytes(bs)
    return SymBytes(bs, mutable)
