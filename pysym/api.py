"""What a spec (harness module) sees: input domains, assume(), nondeterministic environment choices.

Every function here has two behaviours: under the symbolic interpreter the call is intercepted
(models.install) and produces symbolic values / path constraints; natively (witness and
counterexample replay) it reads the concrete values of the replayed path from _REPLAY.
"""
import z3

from .values import SymBool, SymBV, SymBytes, SymFloat, SymInt, SymStr, mkbool

_ENGINE = None
_REPLAY = None          # dict name -> concrete value, set during native replay


class AssumeFailed(BaseException):
    pass


class ReplayMissing(BaseException):
    pass


def assume(cond):
    if not cond:
        raise AssumeFailed()


def _nd(tag):
    global _REPLAY
    if _REPLAY is None:
        raise ReplayMissing("nondeterministic choice outside a replay")
    cnt = _REPLAY.setdefault("__n__", {})
    i = cnt.get(tag, 0)
    cnt[tag] = i + 1
    name = f"nd:{tag}#{i}"
    if name not in _REPLAY:
        raise ReplayMissing(name)
    return _REPLAY[name]


def nondet_bool(tag):
    return _nd(tag)


def nondet_int(tag, lo, hi):
    return _nd(tag)


def nondet_bv(tag, width, signed=False):
    return _nd(tag)


def nondet_bytes(tag, n):
    return _nd(tag)


def nondet_str(tag, n, lo=48, hi=57):
    """string of n characters, each any code point in [lo, hi] (default: decimal digits)"""
    return _nd(tag)


def opaque_bytes(tag, length):
    """a buffer of `length` bytes whose content the property does not depend on. Natively: real bytes whose every
    byte is derived from the tag (buffers of different tags differ); symbolically: an opaque rope of symbolic length."""
    seed = sum(ord(c) for c in str(tag)) % 251 + 1
    return bytes([seed]) * length


def cover(label):
    """reachability marker (vacuity guard): counted when executed"""


def concretize(x):
    """fork the path over every feasible value of a (small-range) symbolic int; natively the identity"""
    return x


def is_symbolic(x):
    return False


def round15(x):
    """the float rounded to 15 significant digits (what sigfig.round(x, 15) returns); symbolically: the decimal a noisy
    product stands for"""
    return float("%.15g" % x)


# ------------------------------------------------------------------------------- input domains
class Dom:
    def make(self, eng, name):
        raise NotImplementedError

    def describe(self):
        return type(self).__name__


class IntDom(Dom):
    """python int as z3 Int; lo/hi None = unbounded"""

    def __init__(self, lo=None, hi=None):
        self.lo, self.hi = lo, hi

    def make(self, eng, name):
        v = z3.Int(name)
        if self.lo is not None:
            eng.add_fact(v >= self.lo)
        if self.hi is not None:
            eng.add_fact(v <= self.hi)
        eng.set_bounds(v, self.lo, self.hi)
        return SymInt(v)

    def describe(self):
        return f"Int[{self.lo},{self.hi}]"


class BVDom(Dom):
    """python int as a widening bit-vector of `width` bits"""

    def __init__(self, width, signed=False, lo=None, hi=None):
        self.width, self.signed, self.lo, self.hi = width, signed, lo, hi

    def make(self, eng, name):
        v = z3.BitVec(name, self.width)
        if self.lo is not None:
            eng.add_fact((v >= self.lo) if self.signed else z3.UGE(v, self.lo))
        if self.hi is not None:
            eng.add_fact((v <= self.hi) if self.signed else z3.ULE(v, self.hi))
        return SymBV(v, self.signed)

    def describe(self):
        return f"BV{self.width}{'s' if self.signed else 'u'}[{self.lo},{self.hi}]"


class BoolDom(Dom):
    def make(self, eng, name):
        return SymBool(z3.Bool(name))


class StrDom(Dom):
    """str of exactly n chars; each char any Unicode scalar value (or within `ranges`)"""

    def __init__(self, n, ranges=None, bv=False):
        self.n, self.ranges, self.bv = n, ranges, bv

    def make(self, eng, name):
        cs = []
        for i in range(self.n):
            c = z3.Int(f"{name}[{i}]")
            rs = self.ranges or [(0, 0xD7FF), (0xE000, 0x10FFFF)]
            eng.add_fact(z3.Or(*[z3.And(c >= lo, c <= hi) for lo, hi in rs]))
            cs.append(SymInt(c))
        return SymStr(cs)

    def describe(self):
        return f"Str(n={self.n}, ranges={self.ranges or 'all Unicode scalar values'})"


class BytesDom(Dom):
    def __init__(self, n, mutable=False, fixed=None):
        self.n, self.mutable, self.fixed = n, mutable, fixed or {}

    def make(self, eng, name):
        bs = []
        for i in range(self.n):
            if i in self.fixed:
                bs.append(self.fixed[i])
            else:
                bs.append(SymBV(z3.BitVec(f"{name}[{i}]", 8), False))
        return SymBytes(bs, self.mutable)

    def describe(self):
        return f"Bytes(n={self.n}, fixed={self.fixed})"


class FloatDom(Dom):
    """any IEEE double (incl. nan/inf) unless finite=True"""

    def __init__(self, finite=False):
        self.finite = finite

    def make(self, eng, name):
        from .values import F64
        v = z3.FP(name, F64)
        if self.finite:
            eng.add_fact(z3.Not(z3.Or(z3.fpIsNaN(v), z3.fpIsInf(v))))
        return SymFloat(v)


class DecFloatDom(Dom):
    """finite non-zero float given by its shortest decimal representation: n significant digits (first and last
    non-zero, all symbolic), decimal exponent e10 of the first digit, symbolic sign. Natively: float('d.ddde<e10>')."""

    def __init__(self, n, e10, signed=True):
        self.n, self.e10, self.signed = n, e10, signed

    def make(self, eng, name):
        ds = []
        for i in range(self.n):
            d = z3.Int(f"{name}.d{i}")
            lo = 1 if i == 0 or i == self.n - 1 else 0
            eng.add_fact(z3.And(d >= lo, d <= 9))
            ds.append(SymInt(d))
        neg = SymBool(z3.Bool(f"{name}.neg")) if self.signed else False
        return SymFloat(dec=(neg, ds, self.e10))

    def describe(self):
        return f"DecFloat(digits={self.n}, e10={self.e10})"


class Cases(Dom):
    """concrete enumeration: every value is explored as a separate root (exhaustive)"""

    def __init__(self, values):
        self.values = list(values)

    def describe(self):
        return f"Cases({self.values!r})"


class Const(Dom):
    def __init__(self, v):
        self.v = v

    def make(self, eng, name):
        return self.v


class Harness:
    def __init__(self, name, fn, inputs, bounds="", outside=(), stubs=(), loop_bound=300, witness_cap=60,
                 timeout_ms=60000, models=None, patches=None, interpret=None):
        self.name = name
        self.fn = fn
        self.inputs = inputs          # dict name -> Dom  (or callable(tier) -> dict)
        self.bounds = bounds
        self.outside = list(outside)
        self.stubs = list(stubs)
        self.loop_bound = loop_bound
        self.witness_cap = witness_cap
        self.timeout_ms = timeout_ms
        self.models = dict(models or {})
        self.patches = list(patches or [])   # (owner, attribute, replacement): environment stubs, active symbolically and natively
        self.interpret = list(interpret or [])   # pure-Python functions outside the repository that are interpreted too (e.g. protobuf's varint helpers)

    def input_domains(self, tier):
        d = self.inputs(tier) if callable(self.inputs) else self.inputs
        return d
