"""C13 (partial) - grouping separators, negative styles, currency symbols, accounting layout and percent only
decorate: they never drop, add or change a digit, and the sign is shown exactly once."""
import numbers_parser.cell as cellmod
from numbers_parser.cell import _format_currency, _format_decimal
from numbers_parser.constants import DECIMAL_PLACES_AUTO
from numbers_parser.currencies import CURRENCY_SYMBOLS

from pysym.api import BoolDom, Cases, Harness, IntDom, assume, concretize, cover, nondet_int, nondet_str


class Rec:
    def __init__(self, **kw):
        self.__dict__.update(kw)


LAST = []
SHAPE = [1, 0]          # digits before / after the point that the rounding stub produces on this run


class Num:
    """what sigfig.round returns without type=str: prints as its digits"""

    def __init__(self, text):
        self.text = text

    def __str__(self):
        return self.text


def group3(digits, from_left=False):
    out = ""
    n = len(digits)
    for i in range(n):
        if i and ((i % 3 == 0) if from_left else ((n - i) % 3 == 0)):
            out += ","
        out += digits[i]
    return out


def fake_sigfig(x, *args, **kw):
    """contract stub of sigfig.round: the digits are some rounding of the argument (not inspected here); the sign is the
    argument's; type=str gives a plain digit string; spacer groups by three"""
    if isinstance(x, str):
        neg = x.startswith("-")
        body = x[1:] if neg else x
        if kw.get("spacer") is not None:
            parts = body.split(".")
            res = group3(parts[0])
            if len(parts) > 1:
                res = res + "." + group3(parts[1], True)
            return ("-" if neg else "") + res
        # re-rounding a digit string to N decimals: fresh digits of the requested shape
        nd = kw["decimals"]
    else:
        neg = x < 0
        nd = None
    ni = SHAPE[0]
    ip = nondet_str("ipart", ni)
    if ni > 1:
        assume(ip[0] != "0")            # a rounded decimal has no leading zeros
    if nd is None:
        nf = SHAPE[1]
    else:
        nf = concretize(nd)
    fp = nondet_str("fpart", nf)
    s = ip + ("." + fp if nf else "")
    LAST.append(s)
    if kw.get("type") is str or isinstance(x, str):
        return ("-" if neg else "") + s
    return Num(("-" if neg else "") + s)


def strip(text):
    out = ""
    for ch in text:
        if ch not in ",()%-\t$ ":
            out += ch
    return out


VALUES = {"neg-frac": -12.5, "neg-int": -3.0, "pos-frac": 12.5, "pos-int": 7.0}


def h13_decimal(vclass, negative_style, thousands, places, percent, ni, nf):
    """_format_decimal: the digits the rounding step produced appear unchanged; negative shown once per the style"""
    del LAST[:]
    SHAPE[0] = ni
    SHAPE[1] = nf
    value = VALUES[vclass]
    assume(0 <= negative_style <= 3)
    assume(places == DECIMAL_PLACES_AUTO or 0 <= places <= 3)
    fmt = Rec(negative_style=negative_style, show_thousands_separator=thousands, decimal_places=places)
    out = _format_decimal(value, fmt, percent)
    if not LAST:
        # integral value with automatic decimals: printed from the integer itself
        digits = str(abs(int(value)))
    else:
        digits = LAST[-1]
    assert strip(out) == digits.replace(".", ".")
    neg = value < 0
    minus = out.count("-")
    paren = out.count("(") + out.count(")")
    if not neg:
        assert minus == 0 and paren == 0
    elif negative_style == 0:
        assert minus == 1 and out.startswith("-") and paren == 0
    elif negative_style == 1:
        assert minus == 0 and paren == 0            # colour only
    else:
        assert minus == 0 and out.startswith("(") and out.endswith(")") and paren == 2
    assert out.count("%") == (1 if percent else 0)
    if not thousands:
        assert "," not in out
    else:
        ip = digits.split(".")[0]
        assert out.count(",") == (len(ip) - 1) // 3


def h13_currency(vclass, negative_style, thousands, places, accounting, known, ni, nf):
    del LAST[:]
    SHAPE[0] = ni
    SHAPE[1] = nf
    value = VALUES[vclass]
    assume(0 <= negative_style <= 3)
    assume(places == DECIMAL_PLACES_AUTO or 0 <= places <= 2)
    code = "GBP" if known else "XQZ"
    fmt = Rec(negative_style=negative_style, show_thousands_separator=thousands, decimal_places=places,
              use_accounting_style=accounting, currency_code=code)
    out = _format_currency(value, fmt)
    symbol = CURRENCY_SYMBOLS[code] if known else code + " "
    assert out.startswith(symbol)
    rest = out[len(symbol):]
    digits = LAST[-1] if LAST else str(abs(int(value)))
    assert strip(rest) == digits            # no digit dropped, none added
    neg = value < 0
    minus = rest.count("-")
    paren = rest.count("(") + rest.count(")")
    if accounting:
        assert rest.startswith("\t")
        if neg:
            assert minus == 0 and paren == 2 and rest[1] == "(" and rest.endswith(")")
        else:
            assert minus == 0 and paren == 0
    elif not neg:
        assert minus == 0 and paren == 0
    elif negative_style == 0:
        assert minus == 1 and paren == 0
    elif negative_style == 1:
        assert minus == 0 and paren == 0
    else:
        assert minus == 0 and paren == 2


STUBS = ["sigfig.round replaced by a contract stub: returns digit strings of nondeterministic content (1 or 4 integer digits quick; 1, 3, 4 or 7 thorough; "
         "0 / 2 (0..2 thorough) or the requested number of decimals) with the argument's sign; grouping by three for spacer=','"]
OUT = ["that the digits are the value correctly rounded to the displayed precision (sigfig / Decimal internals)",
       "scientific notation, number bases, fractions, custom number patterns (C-level float formatting)"]
HARNESSES = [
    Harness("H13-decimal", h13_decimal,
            lambda tier: dict(vclass=Cases(list(VALUES)), negative_style=IntDom(), thousands=BoolDom(), places=IntDom(), percent=BoolDom(),
                              ni=Cases([1, 4] if tier == "quick" else [1, 3, 4, 7]), nf=Cases([0, 2] if tier == "quick" else [0, 1, 2])),
            bounds="value sign/integrality classes x 4 negative styles x separator on/off x decimals {auto, 0..3} x percent; digit strings symbolic",
            stubs=STUBS, outside=OUT, patches=[(cellmod, "sigfig", fake_sigfig)]),
    Harness("H13-currency", h13_currency,
            lambda tier: dict(vclass=Cases(list(VALUES)), negative_style=IntDom(), thousands=BoolDom(), places=IntDom(), accounting=BoolDom(),
                              known=BoolDom(), ni=Cases([1, 4] if tier == "quick" else [1, 3, 4, 7]), nf=Cases([0, 2] if tier == "quick" else [0, 1, 2])),
            bounds="as H13-decimal x accounting layout on/off x known/unknown currency code",
            stubs=STUBS, outside=OUT, patches=[(cellmod, "sigfig", fake_sigfig)]),
]
PROPERTY = "C13"
