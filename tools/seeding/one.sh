#!/bin/sh
# usage: one.sh <round> <id> : verify + try, log to /tmp/b<round>_<id>.log
R=$1; id=$2
{ echo "=== $id"; /tmp/seedtools/verify_seed.sh ${id}r$R /tmp/seed${R}_$id 2>&1 | grep -v "^---"; /tmp/seedtools/try_seed_wt.sh $id /tmp/seed${R}_$id; echo "=== done $id"; } > /tmp/b${R}_$id.log 2>&1
