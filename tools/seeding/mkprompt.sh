#!/bin/sh
# usage: mkprompt.sh <ID> <round> "<focus>"
ID=$1; R=$2; FOCUS=$3
sed -e "s#WT#/tmp/wt${R}_$ID#g" -e "s#PROPFILE#/tmp/seedtools/prop_$ID.json#g" -e "s#OUTDIR#/tmp/seed${R}_$ID#g" /tmp/seedtools/agent_prompt.txt | sed -e 's/-n 6/-n 4/g'
echo
echo "Focus for this round (so that different agents cover different mechanisms): prefer a change in or around: $FOCUS. If you find nothing workable there, any other mechanism the property names is fine."
