"""Arithmetic / comparison semantics on symbolic values (mixin for Engine)."""
import ast
import operator
import time

import z3

from .values import (SymDT, SymTD, F64, LazyStr, Opaque, SymBool, SymBV, SymBytes, SymFloat, SymInt, SymStr, Unsupported,
                     as_bytes_list, bv_common, bv_const, chars, is_sym, mkbool, mkbv, mkbytes, mkint, mkstr, zbool,
                     zint)

PYOPS = {ast.Add: operator.add, ast.Sub: operator.sub, ast.Mult: operator.mul, ast.Div: operator.truediv,
         ast.FloorDiv: operator.floordiv, ast.Mod: operator.mod, ast.Pow: operator.pow, ast.BitAnd: operator.and_,
         ast.BitOr: operator.or_, ast.BitXor: operator.xor, ast.LShift: operator.lshift, ast.RShift: operator.rshift}
PYCMP = {ast.Eq: operator.eq, ast.NotEq: operator.ne, ast.Lt: operator.lt, ast.LtE: operator.le, ast.Gt: operator.gt,
         ast.GtE: operator.ge}
ZCMP = {ast.Eq: lambda x, y: x == y, ast.NotEq: lambda x, y: x != y, ast.Lt: lambda x, y: x < y,
        ast.LtE: lambda x, y: x <= y, ast.Gt: lambda x, y: x > y, ast.GtE: lambda x, y: x >= y}
FCMP = {ast.Eq: z3.fpEQ, ast.NotEq: z3.fpNEQ, ast.Lt: z3.fpLT, ast.LtE: z3.fpLEQ, ast.Gt: z3.fpGT, ast.GtE: z3.fpGEQ}

INTLIKE = (int, SymInt, SymBV, SymBool)
LEMMAS = {}
LEMMA_LOG = []


LEMMA_CACHE_FILE = None      # set by the driver: per-run file shared by the workers (never reused across runs)


def _load_lemma_cache():
    import json, os
    if LEMMA_CACHE_FILE and os.path.exists(LEMMA_CACHE_FILE):
        try:
            for line in open(LEMMA_CACHE_FILE):
                k, b, r = json.loads(line)
                LEMMAS.setdefault((k, b), r)
        except Exception:
            pass


def _store_lemma(key, r):
    import json
    if LEMMA_CACHE_FILE:
        with open(LEMMA_CACHE_FILE, "a") as f:
            f.write(json.dumps([key[0], key[1], r]) + "\n")


def _nonneg(v):
    return (isinstance(v, int) and v >= 0) or (isinstance(v, SymBV) and not v.signed)


class OpsMixin:
    # ---------------------------------------------------------------- helpers
    def op(self, name, a, b):
        return self.binop(getattr(ast, name)(), a, b)

    def cmp(self, name, a, b):
        return self.compare(getattr(ast, name)(), a, b)

    def neg(self, v):
        if isinstance(v, SymInt):
            return mkint(-v.t)
        if isinstance(v, SymBV):
            x = v.ext(v.w + 1)
            return mkbv(-x, True)
        if isinstance(v, SymBool):
            return mkint(-zint(v))
        if isinstance(v, SymTD):
            from . import dtmodels
            return dtmodels.neg(self, v)
        if isinstance(v, SymFloat):
            if v.ival is not None:
                return SymFloat(ival=self.neg(v.ival))
            if v.t is not None:
                return SymFloat(z3.fpNeg(v.t))
            if v.quot is not None:
                return SymFloat(quot=(self.neg(v.quot[0]), v.quot[1]))
            if v.dec is not None:
                return SymFloat(dec=(self.not_(v.dec[0]), v.dec[1], v.dec[2]),
                                noise=None if v.noise is None else self.neg(v.noise))
            tv = self.as_tracked(v)
            if tv.ideal is not None:
                num, den, eps, exact = tv.ideal
                return self._unwrap(self._reg(SymFloat(real=z3.simplify(-tv.real), ideal=(-num, den, eps, exact))))
            return self.mkreal(-tv.real)
        return -v

    def must(self, cond):
        """True iff cond (a python bool / SymBool) holds on every continuation of this path."""
        if isinstance(cond, bool):
            return cond
        return self.check(z3.Not(zbool(cond))) == z3.unsat

    # ---------------------------------------------------------------- binop
    def binop(self, op, a, b):
        if type(a).__name__ == "SymBlob" or type(b).__name__ == "SymBlob":
            from . import blob
            if isinstance(op, ast.Add):
                return blob.concat(self, [a, b])
            raise Unsupported("blob operator")
        if isinstance(a, (SymDT, SymTD)) or isinstance(b, (SymDT, SymTD)):
            from . import dtmodels
            return dtmodels.binop(self, op, a, b)
        if isinstance(a, set) and isinstance(b, set) and (id(a) in self.symsets or id(b) in self.symsets):
            if not isinstance(op, ast.Sub):
                raise Unsupported("set operator on sets with symbolic items")
            out = set()
            for it in self.iterate(a):
                if not self.truth(self.contains(b, it)):
                    self.set_add(out, it)
            return out
        if isinstance(a, bool) and is_sym(b):
            a = int(a)
        if isinstance(b, bool) and is_sym(a):
            b = int(b)
        if isinstance(a, SymBool):
            a = mkint(zint(a))
        if isinstance(b, SymBool):
            b = mkint(zint(b))
        if isinstance(a, (SymStr, SymBytes, LazyStr)) or isinstance(b, (SymStr, SymBytes, LazyStr)):
            return self.seq_binop(op, a, b)
        if isinstance(a, SymFloat) or isinstance(b, SymFloat) or (
                (isinstance(a, float) or isinstance(b, float)) and (is_sym(a) or is_sym(b))):
            return self.float_binop(op, a, b)
        if isinstance(a, SymInt) or isinstance(b, SymInt):
            return self.int_binop(op, a, b)
        if isinstance(a, SymBV) or isinstance(b, SymBV):
            return self.bv_binop(op, a, b)
        if isinstance(a, (str, bytes, bytearray, list, tuple)) and is_sym(b) or \
                isinstance(b, (str, bytes, bytearray, list, tuple)) and is_sym(a):
            return self.seq_binop(op, a, b)
        f = PYOPS.get(type(op))
        if f is None:
            raise Unsupported("binop " + type(op).__name__)
        if isinstance(a, Opaque) or isinstance(b, Opaque):
            raise Unsupported("arithmetic on opaque value")
        return f(a, b)

    def bv_binop(self, op, a, b):
        t = type(op)
        if not isinstance(a, (int, SymBV)) or not isinstance(b, (int, SymBV)):
            raise Unsupported(f"bv binop mix {type(a).__name__} {type(b).__name__}")
        if t in (ast.LShift, ast.RShift):
            if not isinstance(b, int):
                b = self.concretize_int(b, "shift amount")
            if isinstance(a, int):
                return PYOPS[t](a, b)
            if t is ast.LShift:
                x = a.ext(a.w + b)
                return mkbv(x << b, a.signed)
            if b >= a.w:
                return mkbv(z3.If(a.t < 0, z3.BitVecVal(-1, 2), z3.BitVecVal(0, 2)), True) if a.signed else 0
            return mkbv((a.t >> b) if a.signed else z3.Extract(a.w - 1, b, a.t), a.signed)
        if t in (ast.BitAnd, ast.BitOr, ast.BitXor):
            x, y, w = bv_common(a, b)
            r = {ast.BitAnd: x & y, ast.BitOr: x | y, ast.BitXor: x ^ y}[t]
            nonneg = (t is ast.BitAnd and (_nonneg(a) or _nonneg(b))) or (t is not ast.BitAnd and _nonneg(a) and _nonneg(b))
            if nonneg:
                if t is ast.BitAnd:
                    # result fits in the narrower non-negative operand
                    ws = [v.bit_length() if isinstance(v, int) else v.w for v in (a, b) if _nonneg(v)]
                    k = max(1, min(ws))
                    return mkbv(z3.Extract(k - 1, 0, r), False)
                return mkbv(z3.Extract(w - 2, 0, r) if w > 1 else r, False)
            return mkbv(r, True)
        if t in (ast.Add, ast.Sub):
            x, y, w = bv_common(a, b, extra=1)
            return mkbv(x + y if t is ast.Add else x - y, True)
        if t is ast.Mult:
            if isinstance(a, int) or isinstance(b, int):
                k, v = (a, b) if isinstance(a, int) else (b, a)
                if k == 0:
                    return 0
                w = v.w + (0 if v.signed else 1) + abs(k).bit_length() + 1
                return mkbv(v.ext(w) * z3.BitVecVal(k, w), True)
            x, y, w = bv_common(a, b)
            x = z3.SignExt(w, x)
            y = z3.SignExt(w, y)
            return mkbv(x * y, True)
        if t in (ast.FloorDiv, ast.Mod) and isinstance(b, int) and b > 0:
            if isinstance(a, SymBV):
                if a.signed and not self.must(mkbool(a.t >= 0)):
                    # python floor semantics for negatives: go through Int
                    return self.int_binop(op, mkint(zint(a)), b)
                x, y, w = bv_common(a, b)
                r = mkbv(z3.UDiv(x, y) if t is ast.FloorDiv else z3.URem(x, y), True)
                return r
        if t in (ast.FloorDiv, ast.Mod):
            return self.int_binop(op, mkint(zint(a)) if isinstance(a, SymBV) else a,
                                  mkint(zint(b)) if isinstance(b, SymBV) else b)
        if t is ast.Div:
            return self.float_binop(op, a, b)
        if t is ast.Pow:
            if isinstance(b, SymBV):
                b = self.concretize_int(b, "pow exponent")
            if isinstance(a, SymBV):
                if not isinstance(b, int) or b < 0:
                    raise Unsupported("pow")
                r = 1
                for _ in range(b):
                    r = self.binop(ast.Mult(), r, a)
                return r
            return a ** b
        raise Unsupported("bv binop " + t.__name__)

    def int_binop(self, op, a, b):
        t = type(op)
        if not isinstance(a, INTLIKE) or not isinstance(b, INTLIKE):
            if t is ast.Mult and isinstance(a, (list, tuple, str)) or isinstance(b, (list, tuple, str)):
                return self.seq_binop(op, a, b)
            raise Unsupported(f"int binop {type(a).__name__} {type(b).__name__}")
        za, zb = zint(a), zint(b)
        if t is ast.Add:
            return mkint(za + zb)
        if t is ast.Sub:
            return mkint(za - zb)
        if t is ast.Mult:
            if not isinstance(a, int) and not isinstance(b, int):
                # nonlinear: concretise the one with the smaller range if possible
                b = self.concretize_int(b, "nonlinear multiplication")
                return self.int_binop(op, a, b)
            return mkint(za * zb)
        if t in (ast.FloorDiv, ast.Mod):
            if not isinstance(b, int):
                b = self.concretize_int(b, "symbolic divisor")
            if b == 0:
                raise ZeroDivisionError("integer division or modulo by zero")
            if isinstance(a, int):
                return PYOPS[t](a, b)
            q, r = self.divmod_const(a, b)
            return q if t is ast.FloorDiv else r
        if t is ast.Div:
            return self.float_binop(op, a, b)
        if t is ast.BitAnd:
            if isinstance(b, int) and b >= 0:
                return self.and_const(a, b)
            if isinstance(a, int) and a >= 0:
                return self.and_const(b, a)
        if t is ast.RShift and isinstance(b, int):
            return self.divmod_const(a, 2 ** b)[0]
        if t is ast.LShift and isinstance(b, int):
            return mkint(za * (2 ** b))
        if t in (ast.BitOr, ast.BitXor):
            # disjoint bit ranges: x a multiple of 2^k, 0 <= y < 2^k  =>  x | y == x ^ y == x + y
            for x, y in ((za, zb), (zb, za)):
                k = self._trailing_zeros(x)
                if k:
                    lo, hi = self.ibounds(y)
                    xlo, _ = self.ibounds(x)
                    if lo is not None and hi is not None and lo >= 0 and hi < 2 ** k and xlo is not None and xlo >= 0:
                        return mkint(x + y)
        if t in (ast.BitOr, ast.BitXor, ast.BitAnd):
            return self.bitop_via_bv(a, b, t)
        if t is ast.Pow:
            if not isinstance(b, int):
                b = self.concretize_int(b, "pow exponent")
            if isinstance(a, int):
                return a ** b
            if b < 0:
                raise Unsupported("negative pow of symbolic")
            r = 1
            for _ in range(b):
                r = self.int_binop(ast.Mult(), r, a)
            return r
        raise Unsupported(f"int binop {t.__name__}")

    def _trailing_zeros(self, t):
        """k such that the Int term is certainly a multiple of 2^k (syntactic)"""
        t = z3.simplify(t)
        if z3.is_int_value(t):
            v = t.as_long()
            if v == 0:
                return 64
            return (v & -v).bit_length() - 1
        if z3.is_mul(t):
            return sum(self._trailing_zeros(c) for c in t.children())
        if z3.is_add(t):
            return min(self._trailing_zeros(c) for c in t.children())
        return 0

    def divmod_const(self, a, k):
        """floor division / modulo of a symbolic Int by a non-zero constant, eliminated into fresh q, r."""
        key = (a.t.get_id(), k)
        hit = self.divmod_cache.get(key)
        if hit is not None:
            return hit
        # exact multiples: (c*x) div k with k | c needs no fresh variables
        t = a.t
        if z3.is_mul(t) and t.num_args() == 2 and k > 0:
            c, x = t.arg(0), t.arg(1)
            if z3.is_int_value(x):
                c, x = x, c
            if z3.is_int_value(c) and c.as_long() % k == 0:
                res = (mkint(x * (c.as_long() // k)), 0)
                self.divmod_cache[key] = res
                self.keep.append(a.t)          # the key is the term id: keep the term alive so the id is not reused
                return res
        self.fresh_n += 1
        q = z3.Int(f"_q{self.fresh_n}")
        r = z3.Int(f"_r{self.fresh_n}")
        self.add_fact(a.t == q * k + r)
        if k > 0:
            self.add_fact(z3.And(r >= 0, r < k))
            import math
            lo, hi = self.ibounds(a.t)
            self.set_bounds(r, 0, k - 1)
            self.set_bounds(q, None if lo is None else math.floor(lo / k), None if hi is None else math.floor(hi / k))
        else:
            self.add_fact(z3.And(r <= 0, r > k))
        res = (SymInt(q), SymInt(r))
        self.divmod_cache[key] = res
        self.keep.append(a.t)
        return res

    def and_const(self, a, mask):
        if mask == 0:
            return 0
        if isinstance(a, int):
            return a & mask
        if (mask + 1) & mask == 0:
            return self.divmod_const(a, mask + 1)[1]
        res = 0
        m, pos = mask, 0
        while m:
            if m & 1:
                start = pos
                while m & 1:
                    m >>= 1
                    pos += 1
                width = pos - start
                hi = self.divmod_const(a, 2 ** start)[0] if start else a
                fld = self.divmod_const(hi, 2 ** width)[1] if not isinstance(hi, int) else hi % (2 ** width)
                res = self.op("Add", res, self.op("Mult", fld, 2 ** start))
            else:
                m >>= 1
                pos += 1
        return res

    def bitop_via_bv(self, a, b, t, width=64):
        for v in (a, b):
            if not self.must(self.cmp("GtE", v, 0)) or not self.must(self.cmp("Lt", v, 2 ** width)):
                raise Unsupported("bit operation on Int outside [0, 2^64)")
        x, y = z3.Int2BV(zint(a), width), z3.Int2BV(zint(b), width)
        r = {ast.BitAnd: x & y, ast.BitOr: x | y, ast.BitXor: x ^ y}[t]
        return mkint(z3.BV2Int(r))

    # ---------------------------------------------------------------- floats
    def int_range_bits(self, v):
        """smallest b in a ladder with |v| <= 2**b on this path, or None"""
        for bits in (15, 20, 24, 32, 53):
            if self.must(self.cmp("LtE", v, 2 ** bits)) and self.must(self.cmp("GtE", v, -(2 ** bits))):
                return bits
        return None

    def to_fp(self, v):
        if isinstance(v, SymFloat):
            if v.t is not None:
                return v.t
            if v.ival is not None:
                return self.to_fp(v.ival)
            if v.noise is not None:
                raise Unsupported("bit-level operation on a float carrying rounding noise")
            if v.dec is not None:
                raise Unsupported("floating-point arithmetic on a decimal-defined symbolic float")
            if v.real is not None:
                raise Unsupported("bit-level operation on a real-enclosure symbolic float")
            a, k = v.quot
            return z3.fpDiv(z3.RNE(), self.to_fp(a), z3.FPVal(float(k), F64))
        if isinstance(v, float):
            return z3.FPVal(v, F64)
        if isinstance(v, bool):
            return z3.FPVal(float(v), F64)
        if isinstance(v, int):
            return z3.FPVal(float(v), F64)
        if isinstance(v, SymBV):
            w = v.w + (0 if v.signed else 1)
            return z3.fpSignedToFP(z3.RNE(), v.ext(w), F64)
        if isinstance(v, SymInt):
            if not (self.must(self.cmp("LtE", v, 2 ** 100)) and self.must(self.cmp("GtE", v, -(2 ** 100)))):
                raise Unsupported("int->float of unbounded Int")
            return z3.fpSignedToFP(z3.RNE(), z3.Int2BV(v.t, 128), F64)
        raise Unsupported("to_fp " + type(v).__name__)

    def as_float(self, v):
        """float(x) for an int-like sym: integral tag when |v| < 2**53"""
        if isinstance(v, (SymInt, SymBV, SymBool)):
            if isinstance(v, SymBool):
                v = mkint(zint(v))
            if isinstance(v, int):
                return float(v)
            b = self.int_range_bits(v)
            if b is not None:
                return SymFloat(ival=v)
            return SymFloat(quot=(v, 1))      # float(int) is correctly rounded
        return v

    def float_binop(self, op, a, b):
        t = type(op)
        ia = a.ival if isinstance(a, SymFloat) else (a if isinstance(a, INTLIKE) else
                                                     (int(a) if isinstance(a, float) and a.is_integer() and abs(a) < 2 ** 53 else None))
        ib = b.ival if isinstance(b, SymFloat) else (b if isinstance(b, INTLIKE) else
                                                     (int(b) if isinstance(b, float) and b.is_integer() and abs(b) < 2 ** 53 else None))
        if t is ast.Div:
            if ia is not None and isinstance(ib, int) and not isinstance(ib, bool) and ib > 0 and not isinstance(ia, int):
                return SymFloat(quot=(ia, ib))
            if ib is not None and not isinstance(ib, int):
                if self.truth(self.cmp("Eq", ib, 0)):
                    raise ZeroDivisionError("division by zero")
            elif isinstance(ib, int) and ib == 0 or (isinstance(b, float) and b == 0.0):
                raise ZeroDivisionError("division by zero")
        if ia is not None and ib is not None and t in (ast.Add, ast.Sub, ast.Mult):
            r = self.binop(op, ia, ib)
            if isinstance(r, int):
                if abs(r) < 2 ** 53:
                    return float(r)
            elif self.int_range_bits(r) is not None:
                return SymFloat(ival=r)
        if ia is not None and isinstance(ib, int) and not isinstance(ib, bool) and ib > 0 and t is ast.Mod:
            r = self.binop(op, ia, ib)
            return float(r) if isinstance(r, int) else SymFloat(ival=r)
        if t in (ast.Add, ast.Sub):
            # half-integers are exact doubles: keep them as the quotient (n, 2)
            ha, hb = self._halves(a), self._halves(b)
            if ha is not None and hb is not None:
                n = self.binop(op, ha, hb)
                if isinstance(n, int):
                    return n / 2
                if self.int_range_bits(n) is not None and self.must(self.cmp("GtE", n, 0)):
                    return SymFloat(quot=(n, 2))
        if t is ast.Mult:
            for x, c in ((a, b), (b, a)):
                if isinstance(x, SymFloat) and x.dec is not None and x.noise is None and isinstance(c, (int, float)) \
                        and not isinstance(c, bool) and c in (10, 100, 1000, 10000) and len(x.dec[1]) <= 15:
                    # decimal-defined double times a power of ten: the decimal shifted, up to 2 ulp away from its nearest
                    # double (two roundings: the operand's own and the product's) - direction unknown: symbolic noise
                    from .models import nondet_bool_sym      # noqa: F401  (model-level nondeterminism marker)
                    self.path_model_nondet = True
                    k = z3.Int("_noise_%d" % self.fresh_id())
                    self.add_fact(z3.And(k >= -2, k <= 2))
                    self.set_bounds(k, -2, 2)
                    shift = len(str(int(c))) - 1
                    return SymFloat(dec=(x.dec[0], x.dec[1], x.dec[2] + shift), noise=SymInt(k))
        for v in (a, b):
            if isinstance(v, SymFloat) and v.noise is not None:
                raise Unsupported("arithmetic on a float carrying rounding noise")
        if not (isinstance(a, SymFloat) and a.t is not None) and not (isinstance(b, SymFloat) and b.t is not None) \
                and t in (ast.Add, ast.Sub, ast.Mult, ast.Div, ast.Mod):
            for v in (a, b):
                if isinstance(v, float) and (v != v or abs(v) == float("inf")):
                    break
            else:
                return self.real_binop(t, a, b)
        fa, fb = self.to_fp(a), self.to_fp(b)
        if t is ast.Div:
            if ib is None and self.decide(z3.fpIsZero(fb)):
                raise ZeroDivisionError("float division by zero")
            return SymFloat(z3.fpDiv(z3.RNE(), fa, fb))
        if t is ast.Mult:
            return SymFloat(z3.fpMul(z3.RNE(), fa, fb))
        if t is ast.Add:
            return SymFloat(z3.fpAdd(z3.RNE(), fa, fb))
        if t is ast.Sub:
            return SymFloat(z3.fpSub(z3.RNE(), fa, fb))
        raise Unsupported("float op " + t.__name__)

    def _halves(self, v):
        """2*v as an exact integer (symbolic or concrete) when v is known to be a multiple of 1/2, else None"""
        if isinstance(v, SymFloat):
            if v.ival is not None:
                return self.op("Mult", v.ival, 2)
            if v.quot is not None and v.quot[1] == 2:
                return v.quot[0]
            if v.quot is not None and v.quot[1] == 1:
                return self.op("Mult", v.quot[0], 2)
            return None
        if isinstance(v, bool):
            return 2 * int(v)
        if isinstance(v, (int, SymInt, SymBV)):
            return self.op("Mult", v, 2)
        if isinstance(v, float) and abs(v) < 2 ** 50 and (2 * v).is_integer():
            return int(2 * v)
        return None

    # ---------------------------------------------------------------- static intervals (no solver calls)
    def ibounds(self, t):
        """sound interval (lo, hi) of an Int/Real term as Fractions (None = unbounded), from the declared ranges of the
        variables; path conditions are ignored (looser, still sound)"""
        from fractions import Fraction
        import math
        memo = self.ib_memo
        def ev(t):
            k = t.get_id()
            if k in memo:
                return memo[k][1]
            r = ev1(t)
            memo[k] = (t, r)
            return r
        def add(a, b):
            return (None if a[0] is None or b[0] is None else a[0] + b[0], None if a[1] is None or b[1] is None else a[1] + b[1])
        def neg(a):
            return (None if a[1] is None else -a[1], None if a[0] is None else -a[0])
        def mul(a, b):
            if None in a or None in b:
                # a point times anything keeps one-sided information only in simple cases: give up
                if a[0] is not None and a[0] == a[1] and a[0] == 0 or b[0] is not None and b[0] == b[1] and b[0] == 0:
                    return (Fraction(0), Fraction(0))
                if a[0] is not None and a[0] == a[1]:
                    c = a[0]
                    lo, hi = b
                elif b[0] is not None and b[0] == b[1]:
                    c = b[0]
                    lo, hi = a
                else:
                    return (None, None)
                if c > 0:
                    return (None if lo is None else lo * c, None if hi is None else hi * c)
                return (None if hi is None else hi * c, None if lo is None else lo * c)
            ps = [a[0] * b[0], a[0] * b[1], a[1] * b[0], a[1] * b[1]]
            return (min(ps), max(ps))
        def ev1(t):
            if z3.is_int_value(t):
                v = Fraction(t.as_long())
                return (v, v)
            if z3.is_rational_value(t):
                v = Fraction(t.numerator_as_long(), t.denominator_as_long())
                return (v, v)
            kd = t.decl().kind()
            if kd == z3.Z3_OP_UNINTERPRETED and t.num_args() == 0:
                return self.var_bounds.get(t.decl().name(), (None, None))
            ch = t.children()
            if kd == z3.Z3_OP_ADD:
                r = ev(ch[0])
                for c in ch[1:]:
                    r = add(r, ev(c))
                return r
            if kd == z3.Z3_OP_SUB:
                r = ev(ch[0])
                for c in ch[1:]:
                    r = add(r, neg(ev(c)))
                return r
            if kd == z3.Z3_OP_UMINUS:
                return neg(ev(ch[0]))
            if kd == z3.Z3_OP_MUL:
                r = ev(ch[0])
                for c in ch[1:]:
                    r = mul(r, ev(c))
                return r
            if kd == z3.Z3_OP_DIV:
                d = ev(ch[1])
                if d[0] is not None and d[0] == d[1] and d[0] != 0:
                    return mul(ev(ch[0]), (1 / d[0], 1 / d[0]))
                return (None, None)
            if kd == z3.Z3_OP_TO_REAL:
                return ev(ch[0])
            if kd == z3.Z3_OP_TO_INT:
                a = ev(ch[0])
                return (None if a[0] is None else Fraction(math.floor(a[0])), None if a[1] is None else Fraction(math.floor(a[1])))
            if kd == z3.Z3_OP_ITE:
                a, b = ev(ch[1]), ev(ch[2])
                return (None if a[0] is None or b[0] is None else min(a[0], b[0]),
                        None if a[1] is None or b[1] is None else max(a[1], b[1]))
            if kd == z3.Z3_OP_MOD:
                d = ev(ch[1])
                if d[0] is not None and d[0] == d[1] and d[0] > 0:
                    return (Fraction(0), d[0] - 1)
                return (None, None)
            if kd == z3.Z3_OP_IDIV:
                d = ev(ch[1])
                a = ev(ch[0])
                if d[0] is not None and d[0] == d[1] and d[0] > 0 and None not in a:
                    return (Fraction(math.floor(a[0] / d[0])), Fraction(math.floor(a[1] / d[0])))
                return (None, None)
            return (None, None)
        return ev(t)

    def interval_truth(self, cond, depth=0):
        """True / False when the static intervals alone decide the Bool term, else None"""
        r = self._interval_truth(cond, depth)
        if r is None and depth == 0:
            # a condition over ONE integer variable with a small declared range: decide by exhaustive substitution
            vs = self._free_consts(cond)
            if len(vs) == 1:
                v = vs[0]
                b = self.var_bounds.get(v.decl().name())
                if z3.is_int(v) and b is not None and None not in b and b[1] - b[0] < 40:
                    seen = set()
                    for k in range(int(b[0]), int(b[1]) + 1):
                        t = z3.simplify(z3.substitute(cond, (v, z3.IntVal(k))))
                        if z3.is_true(t):
                            seen.add(True)
                        elif z3.is_false(t):
                            seen.add(False)
                        else:
                            return None
                        if len(seen) == 2:
                            return None
                    if len(seen) == 1:
                        return seen.pop()
        return r

    def _free_consts(self, t, limit=3):
        out = {}
        todo = [t]
        n = 0
        while todo:
            x = todo.pop()
            n += 1
            if n > 400:
                return [None, None, None]
            if z3.is_const(x):
                if x.decl().kind() == z3.Z3_OP_UNINTERPRETED:
                    out[x.get_id()] = x
                    if len(out) > limit:
                        break
            else:
                todo.extend(x.children())
        return list(out.values())

    def _interval_truth(self, cond, depth=0):
        k = cond.decl().kind()
        ch = cond.children()
        if k == z3.Z3_OP_TRUE:
            return True
        if k == z3.Z3_OP_FALSE:
            return False
        if k == z3.Z3_OP_NOT:
            r = self._interval_truth(ch[0], depth + 1)
            return None if r is None else not r
        if k in (z3.Z3_OP_AND, z3.Z3_OP_OR) and depth < 6:
            rs = [self._interval_truth(c, depth + 1) for c in ch]
            if k == z3.Z3_OP_AND:
                if any(r is False for r in rs):
                    return False
                return True if all(r is True for r in rs) else None
            if any(r is True for r in rs):
                return True
            return False if all(r is False for r in rs) else None
        if k in (z3.Z3_OP_LE, z3.Z3_OP_GE, z3.Z3_OP_LT, z3.Z3_OP_GT, z3.Z3_OP_EQ, z3.Z3_OP_DISTINCT) and len(ch) == 2:
            if not (z3.is_arith(ch[0]) and z3.is_arith(ch[1])):
                return None
            a, b = self.ibounds(ch[0]), self.ibounds(ch[1])
            if k == z3.Z3_OP_GE:
                a, b, k = b, a, z3.Z3_OP_LE
            elif k == z3.Z3_OP_GT:
                a, b, k = b, a, z3.Z3_OP_LT
            # now: a <= b or a < b or a == b or a != b
            if k == z3.Z3_OP_LE:
                if a[1] is not None and b[0] is not None and a[1] <= b[0]:
                    return True
                if a[0] is not None and b[1] is not None and a[0] > b[1]:
                    return False
                return None
            if k == z3.Z3_OP_LT:
                if a[1] is not None and b[0] is not None and a[1] < b[0]:
                    return True
                if a[0] is not None and b[1] is not None and a[0] >= b[1]:
                    return False
                return None
            disjoint = (a[1] is not None and b[0] is not None and a[1] < b[0]) or (a[0] is not None and b[1] is not None and a[0] > b[1])
            same_point = None not in a and None not in b and a[0] == a[1] == b[0] == b[1]
            if k == z3.Z3_OP_EQ:
                return False if disjoint else (True if same_point else None)
            return True if disjoint else (False if same_point else None)
        return None

    def define_var(self, prefix, term, lo=None, hi=None):
        """an Int-valued derived quantity `term` as a SymInt. When, after expanding earlier derived variables, the term
        depends on ONE variable with a small declared range, it is tabulated over that range and re-expressed as a
        piecewise-affine function of that variable (runs of the table that are affine in the index become one piece each):
        chains like decode(upper(encode(d))) collapse to `d` instead of nested if-then-else terms."""
        term = z3.simplify(term)
        if z3.is_int_value(term):
            return term.as_long()
        expanded = z3.substitute(term, *self.defs.values()) if self.defs else term
        vs = self._free_consts(expanded)
        if len(vs) == 1 and vs[0] is not None and z3.is_int(vs[0]):
            v = vs[0]
            b = self.var_bounds.get(v.decl().name())
            if b is not None and None not in b and b[1] - b[0] < 64:
                vlo, vhi = int(b[0]), int(b[1])
                vals = []
                for k in range(vlo, vhi + 1):
                    t = z3.simplify(z3.substitute(expanded, (v, z3.IntVal(k))))
                    if not z3.is_int_value(t):
                        vals = None
                        break
                    vals.append(t.as_long())
                if vals is not None:
                    # affine runs
                    runs = []           # (start index, slope, intercept)  value = slope * x + intercept
                    i = 0
                    n = len(vals)
                    while i < n:
                        if i + 1 < n:
                            slope = vals[i + 1] - vals[i]
                            j = i + 1
                            while j + 1 < n and vals[j + 1] - vals[j] == slope:
                                j += 1
                        else:
                            slope, j = 0, i
                        runs.append((vlo + i, slope, vals[i] - slope * (vlo + i)))
                        i = j + 1
                    if len(runs) <= 8:
                        piece = lambda r: (v * r[1] + r[2]) if r[1] != 0 else z3.IntVal(r[2])
                        t = piece(runs[-1])
                        for r, nxt in zip(reversed(runs[:-1]), reversed(runs[1:])):
                            t = z3.If(v < nxt[0], piece(r), t)
                        term = z3.simplify(t)
                        lo, hi = min(vals), max(vals)
                        if len(runs) == 1:
                            return mkint(term)
                        expanded = term
        nv = z3.Int("_%s_%d" % (prefix, self.fresh_id()))
        self.add_fact(nv == term)
        self.defs[nv.decl().name()] = (nv, expanded)
        if lo is None or hi is None:
            l2, h2 = self.ibounds(term)
            lo = l2 if lo is None else lo
            hi = h2 if hi is None else hi
        self.set_bounds(nv, lo, hi)
        return SymInt(nv)

    def set_bounds(self, var, lo, hi):
        from fractions import Fraction
        self.var_bounds[var.decl().name()] = (None if lo is None else Fraction(lo), None if hi is None else Fraction(hi))

    # ---------------------------------------------------------------- real-enclosure floats
    U53 = z3.Q(1, 2 ** 53)
    TINY = z3.Q(1, 2 ** 120)      # absolute slack >= the subnormal spacing 2^-1074 (kept coarse: small rationals keep simplex fast)

    def is_realkind(self, v):
        """symbolic float that is not an FP term and not (known) integral"""
        return isinstance(v, SymFloat) and v.t is None and v.ival is None

    def rn(self, e):
        """round-to-nearest of the exact real `e` into binary64, as an enclosure (see SymFloat.real). Finite range only."""
        e = z3.simplify(e)
        if z3.is_rational_value(e):
            from fractions import Fraction
            fr = Fraction(e.numerator_as_long(), e.denominator_as_long())
            fv = float(fr)          # int/int true division is correctly rounded
            fq = Fraction(fv)
            return z3.Q(fq.numerator, fq.denominator)
        cache = self.rn_cache
        key = e.get_id()
        hit = cache.get(key)
        if hit is not None:
            return hit[1]
        from fractions import Fraction
        lo, hi = self.ibounds(e)
        z = z3.Real("_rn_%d" % self.fresh_id())
        self.real_mode = True
        u, tiny = self.U53, self.TINY
        if lo is None or hi is None:
            big = z3.RealVal(2 ** 1000)
            if not self.must(mkbool(z3.And(e < big, e > -big))):
                raise Unsupported("float operation whose result is not bounded below 2^1000 (overflow not modelled)")
            mag = None
        else:
            mag = max(abs(lo), abs(hi))
            if mag >= 2 ** 1000:
                raise Unsupported("float operation whose result is not bounded below 2^1000 (overflow not modelled)")
        if lo is not None and lo >= 0:
            self.add_fact(z3.And(z >= e * (1 - u) - tiny, z <= e * (1 + u) + tiny))
        elif hi is not None and hi <= 0:
            self.add_fact(z3.And(z <= e * (1 - u) + tiny, z >= e * (1 + u) - tiny))
        else:
            self.add_fact(z3.If(e >= 0,
                                z3.And(z >= e * (1 - u) - tiny, z <= e * (1 + u) + tiny),
                                z3.And(z <= e * (1 - u) + tiny, z >= e * (1 + u) - tiny)))
        # integers of magnitude <= 2^53 are doubles and rounding is monotone: the result stays between floor and ceil
        if mag is not None and mag <= 2 ** 53:
            fl = z3.ToReal(self.real_floor(e))
            self.add_fact(z3.And(z >= fl, z <= fl + 1, z3.Implies(fl == e, z == e)))
        else:
            lim = z3.RealVal(2 ** 53)
            fl = z3.ToReal(self.real_floor(e))
            self.add_fact(z3.Implies(z3.And(e <= lim, e >= -lim), z3.And(z >= fl, z <= fl + 1, z3.Implies(fl == e, z == e))))
        if mag is not None:
            eps = Fraction(1, 2 ** 53) * mag + Fraction(1, 2 ** 120)
            self.set_bounds(z, lo - eps, hi + eps)
        cache[key] = (e, z)
        return z

    def real_of(self, v):
        """exact real value of a finite float-like value (z3 Real term)"""
        return self.as_tracked(v).real

    def _mag(self, num, den):
        """static bound on |num/den| (Fraction) or None"""
        from fractions import Fraction
        if isinstance(num, int):
            return abs(Fraction(num, den))
        lo, hi = self.ibounds(num)
        if lo is None or hi is None:
            return None
        return max(abs(lo), abs(hi)) / den

    def _divides(self, num, den):
        """Bool (term or python bool): den | num"""
        if den == 1:
            return True
        if isinstance(num, int):
            return num % den == 0
        r = self.divmod_const(SymInt(num), den)[1]
        if isinstance(r, int):
            return r == 0
        return r.t == 0

    def mk_tracked(self, num, den, eps, exact):
        """a double z with |z - num/den| <= eps and (exact -> z == num/den)  [forward error analysis, see SymFloat.ideal]"""
        from fractions import Fraction
        import math
        g = math.gcd(den, num) if isinstance(num, int) else 1
        if g > 1:
            num, den = num // g, den // g
        if not isinstance(num, int):
            num = z3.simplify(num)
            if z3.is_int_value(num):
                num = num.as_long()
        idl = (z3.ToReal(num) / den) if not isinstance(num, int) else z3.Q(num, den)
        if eps == 0:
            return self._reg(SymFloat(real=z3.simplify(idl), ideal=(num, den, Fraction(0), True)))
        mag = self._mag(num, den)
        if mag is not None and mag + eps >= 2 ** 1000:
            raise Unsupported("float operation whose result is not bounded below 2^1000 (overflow not modelled)")
        z = z3.Real("_fz_%d" % self.fresh_id())
        self.real_mode = True
        e = z3.Q(eps.numerator, eps.denominator)
        self.add_fact(z3.And(z >= idl - e, z <= idl + e))
        if exact is True:
            self.add_fact(z == idl)
        elif exact is not False:
            self.add_fact(z3.Implies(exact, z == idl))
        lo, hi = self.ibounds(idl)
        if lo is not None and hi is not None:
            self.set_bounds(z, lo - eps, hi + eps)
        return self._reg(SymFloat(real=z, ideal=(num, den, eps, exact)))

    def _reg(self, f):
        """remember the ideal shadow of a real term (keeps the term alive, so its id stays unique)"""
        if f.ideal is not None and f.real is not None:
            self.ideal_of[f.real.get_id()] = f.ideal
            self.keep.append(f.real)
        return f

    def _rn_eps(self, mag, eps_e, real_expr=None):
        """error bound of RN(e) w.r.t. the ideal: eps_e + u |e| + tiny, |e| bounded by the ideal's magnitude + eps_e or by
        the static interval of the real operand expression, whichever is tighter"""
        from fractions import Fraction
        bound = mag + eps_e
        if real_expr is not None:
            lo, hi = self.ibounds(z3.simplify(real_expr))
            if lo is not None and hi is not None:
                bound = min(bound, max(abs(lo), abs(hi)))
        return eps_e + Fraction(1, 2 ** 53) * bound + Fraction(1, 2 ** 120)

    def as_tracked(self, v):
        """any finite float-like value as a SymFloat with a `real` term (and an ideal shadow where one is known)"""
        from fractions import Fraction
        if isinstance(v, SymFloat):
            if v.real is not None:
                return v
            if v.ival is not None:
                n = zint(v.ival) if is_sym(v.ival) else int(v.ival)
                return self._reg(SymFloat(real=z3.ToReal(n) if not isinstance(n, int) else z3.RealVal(n), ideal=(n, 1, Fraction(0), True)))
            key = None
            if v.quot is not None:
                a, k = v.quot
                num, den = (zint(a) if is_sym(a) else int(a)), k
                key = ("trk", num.get_id() if not isinstance(num, int) else num, den)
            elif v.dec is not None:
                num, den = self.rational(v)
                num = zint(num) if is_sym(num) else int(num)
                key = ("trk", num.get_id() if not isinstance(num, int) else num, den)
            else:
                raise Unsupported("exact real value of a bit-level (FP term) symbolic float")
            hit = self.rn_cache.get(key)
            if hit is not None:
                return hit[1]
            mag = self._mag(num, den)
            if mag is None:
                r = SymFloat(real=self.rn(z3.ToReal(num) / den))
            elif den & (den - 1) == 0 and mag * den < 2 ** 53:
                r = self.mk_tracked(num, den, Fraction(0), True)          # a / 2^j with |a| < 2^53 is a double
            else:
                exact = self._divides(num, den) if mag <= 2 ** 53 else False
                r = self.mk_tracked(num, den, self._rn_eps(mag, Fraction(0)), exact)
            self.rn_cache[key] = (num, r)
            return r
        if isinstance(v, bool):
            v = int(v)
        if isinstance(v, float):
            if v != v or abs(v) == float("inf"):
                raise Unsupported("nan/inf in real-enclosure float arithmetic")
            fr = Fraction(v)
            return SymFloat(real=z3.Q(fr.numerator, fr.denominator), ideal=(fr.numerator, fr.denominator, Fraction(0), True))
        if isinstance(v, int):
            fr = Fraction(float(v))
            return SymFloat(real=z3.Q(fr.numerator, fr.denominator), ideal=(fr.numerator, fr.denominator, Fraction(0), True))
        if isinstance(v, (SymInt, SymBV, SymBool)):
            t = zint(v)
            lo, hi = self.ibounds(t)
            if (lo is not None and hi is not None and max(abs(lo), abs(hi)) <= 2 ** 53) or \
                    self.must(self.and_(self.cmp("LtE", v, 2 ** 53), self.cmp("GtE", v, -(2 ** 53)))):
                return self._reg(SymFloat(real=z3.ToReal(t), ideal=(t, 1, Fraction(0), True)))
            return SymFloat(real=self.rn(z3.ToReal(t)))
        raise Unsupported("real_of " + type(v).__name__)

    def mkreal(self, r):
        r = z3.simplify(r)
        if z3.is_rational_value(r):
            n, d = r.numerator_as_long(), r.denominator_as_long()
            return n / d            # exact: r is a double by construction
        return SymFloat(real=r)

    def _unwrap(self, f):
        """concrete python float when a tracked result is a constant; integral tag when it is an exact integer"""
        if f.ideal is not None and f.ideal[1] == 1 and f.ideal[2] == 0 and not isinstance(f.ideal[0], int):
            mag = self._mag(f.ideal[0], 1)
            if mag is not None and mag < 2 ** 53:
                return SymFloat(ival=mkint(f.ideal[0]))
        r = z3.simplify(f.real)
        if z3.is_rational_value(r):
            return r.numerator_as_long() / r.denominator_as_long()
        return f

    @staticmethod
    def _is_const_ideal(idl):
        return isinstance(idl[0], int) and idl[2] == 0

    def real_binop(self, t, a, b):
        from fractions import Fraction
        A, B = self.as_tracked(a), self.as_tracked(b)
        ra, rb = A.real, B.real
        if A.ideal is not None and B.ideal is not None and t in (ast.Add, ast.Sub, ast.Mult, ast.Div):
            (n1, d1, e1, x1), (n2, d2, e2, x2) = A.ideal, B.ideal
            res = None
            if t in (ast.Add, ast.Sub):
                sgn = 1 if t is ast.Add else -1
                if d1 == d2:
                    num, den = n1 + sgn * n2, d1
                else:
                    num, den = n1 * d2 + sgn * n2 * d1, d1 * d2
                res = (num, den, e1 + e2, False)
                no_round = e1 == 0 and e2 == 0 and den == 1          # int +- int below 2^53 is handled by the caller
            elif t is ast.Mult:
                if self._is_const_ideal(B.ideal):
                    c = Fraction(n2, d2)
                    res = (n1 * c.numerator, d1 * c.denominator, e1 * abs(c), c)
                elif self._is_const_ideal(A.ideal):
                    c = Fraction(n1, d1)
                    res = (n2 * c.numerator, d2 * c.denominator, e2 * abs(c), c)
                else:
                    raise Unsupported("product of two symbolic floats (non-linear)")
            else:
                if not self._is_const_ideal(B.ideal):
                    raise Unsupported("division by a symbolic float (non-linear)")
                if n2 == 0:
                    raise ZeroDivisionError("float division by zero")
                c = Fraction(d2, n2)
                res = (n1 * c.numerator, d1 * c.denominator, e1 / abs(Fraction(n2, d2)), c)
            num, den, eps_e, c = res
            if den < 0:
                num, den = -num, -den
            xe = self.and_(x1 if isinstance(x1, bool) else mkbool(x1), x2 if isinstance(x2, bool) else mkbool(x2))
            xe = xe if isinstance(xe, bool) else xe.t
            mag = self._mag(num, den)
            if mag is not None:
                pow2 = False
                if t in (ast.Mult, ast.Div) and c != 0:
                    cn, cd = abs(c.numerator), c.denominator
                    pow2 = (cn == 1 or cd == 1) and (cn & (cn - 1) == 0) and (cd & (cd - 1) == 0)
                if pow2:
                    return self._unwrap(self.mk_tracked(num, den, eps_e, xe))       # scaling by 2^k is exact
                if eps_e == 0 and xe is True and den & (den - 1) == 0 and mag * den < 2 ** 53:
                    # operands exact, result m / 2^j with |m| < 2^53: representable, the operation does not round
                    return self._unwrap(self.mk_tracked(num, den, Fraction(0), True))
                if xe is False or mag > 2 ** 53:
                    exact = False
                else:
                    dv = self._divides(num, den)
                    exact = dv if xe is True else (False if dv is False else (xe if dv is True else z3.And(xe, dv)))
                rexpr = {ast.Add: lambda: ra + rb, ast.Sub: lambda: ra - rb, ast.Mult: lambda: ra * rb, ast.Div: lambda: ra / rb}[t]()
                return self._unwrap(self.mk_tracked(num, den, self._rn_eps(mag, eps_e, rexpr), exact))
        if t is ast.Add:
            return self.mkreal(self.rn(ra + rb))
        if t is ast.Sub:
            return self.mkreal(self.rn(ra - rb))
        ca, cb = z3.is_rational_value(z3.simplify(ra)), z3.is_rational_value(z3.simplify(rb))
        if t is ast.Mult:
            if not (ca or cb):
                raise Unsupported("product of two symbolic floats (non-linear)")
            return self.mkreal(self.rn(ra * rb))
        if t is ast.Div:
            if not cb:
                raise Unsupported("division by a symbolic float (non-linear)")
            if z3.simplify(rb).numerator_as_long() == 0:
                raise ZeroDivisionError("float division by zero")
            return self.mkreal(self.rn(ra / rb))
        if t is ast.Mod:
            if not cb:
                raise Unsupported("float modulo by a symbolic float (non-linear)")
            c = z3.simplify(rb)
            if c.numerator_as_long() <= 0:
                raise Unsupported("float modulo by a non-positive constant")
            e = ra - c * z3.ToReal(self.real_floor(ra / c))        # fmod is exact; python adds the divisor to a negative remainder
            lo, hi = self.ibounds(ra)
            if (lo is not None and lo >= 0) or (lo is None and self.must(mkbool(ra >= 0))):
                return self.mkreal(e)
            return self.mkreal(self.rn(e))
        raise Unsupported("float op " + t.__name__)

    def frac_part(self, f, whole):
        """f - whole for whole == trunc(f): exact in binary64 (modf); keeps the ideal shadow"""
        f = self.as_tracked(f)
        w = zint(whole) if is_sym(whole) else int(whole)
        fv = z3.Real("_frac_%d" % self.fresh_id())
        self.real_mode = True
        self.add_fact(fv == f.real - (z3.ToReal(w) if not isinstance(w, int) else w))
        self.set_bounds(fv, -1, 1)
        real = fv
        if f.ideal is None:
            return SymFloat(real=real)
        num, den, eps, exact = f.ideal
        return self._reg(SymFloat(real=real, ideal=(num - w * den, den, eps, exact)))

    def real_floor(self, x):
        """floor of a Real term as a fresh Int variable (friendlier to the solver than to_int terms)"""
        x = z3.simplify(x)
        if z3.is_rational_value(x):
            import math
            from fractions import Fraction
            return z3.IntVal(math.floor(Fraction(x.numerator_as_long(), x.denominator_as_long())))
        key = ("floor", x.get_id())
        hit = self.rn_cache.get(key)
        if hit is not None:
            return hit[1]
        n = z3.Int("_fl_%d" % self.fresh_id())
        self.real_mode = True
        self.add_fact(z3.And(z3.ToReal(n) <= x, x < z3.ToReal(n) + 1))
        import math
        lo, hi = self.ibounds(x)
        self.set_bounds(n, None if lo is None else math.floor(lo), None if hi is None else math.floor(hi))
        idl = self.ideal_of.get(x.get_id())
        if idl is not None and idl[2] < 1 and not isinstance(idl[0], int) and idl[1] > 1:
            # redundant hint tying the floor to integer arithmetic on the ideal value: |x - num/den| <= eps < 1
            q = self.divmod_const(SymInt(idl[0]), idl[1])[0]
            qt = zint(q)
            self.add_fact(z3.And(n >= qt - 1, n <= qt + 1))
        self.rn_cache[key] = (x, n)
        return n

    def real_to_int(self, x, mode):
        idl = self.ideal_of.get(x.get_id())
        if idl is not None and idl[2] == 0 and idl[3] is True:
            # an exactly known rational num/den: integer arithmetic only
            num, den = idl[0], idl[1]
            if isinstance(num, int):
                import math
                from fractions import Fraction
                fr = Fraction(num, den)
                return {"floor": math.floor, "ceil": math.ceil, "trunc": math.trunc, "round": round}[mode](fr)
            if den == 1:
                return mkint(num)
            q, r = self.divmod_const(SymInt(num), den)
            qt, rt = zint(q), zint(r)
            if mode == "floor":
                return q
            if mode == "ceil":
                return mkint(z3.If(rt == 0, qt, qt + 1))
            if mode == "trunc":
                return mkint(z3.If(z3.Or(num >= 0, rt == 0), qt, qt + 1))
            if mode == "round":
                return mkint(z3.If(2 * rt < den, qt, z3.If(2 * rt > den, qt + 1, z3.If(qt % 2 == 0, qt, qt + 1))))
        if mode == "floor":
            return mkint(self.real_floor(x))
        if mode == "ceil":
            return mkint(-self.real_floor(-x))
        if mode == "trunc":
            lo, hi = self.ibounds(x)
            if (lo is not None and lo >= 0) or (lo is None and self.must(mkbool(x >= 0))):
                return mkint(self.real_floor(x))
            if (hi is not None and hi <= 0) or (hi is None and self.must(mkbool(x <= 0))):
                return mkint(-self.real_floor(-x))
            if lo is not None and lo > -1:
                fl = self.real_floor(x)         # x in (-1, 0) truncates to 0
                return mkint(z3.If(fl < 0, z3.IntVal(0), fl))
            if hi is not None and hi < 1:
                fl = self.real_floor(-x)
                return mkint(z3.If(fl < 0, z3.IntVal(0), -fl))
            return mkint(z3.If(x >= 0, self.real_floor(x), -self.real_floor(-x)))
        if mode == "round":         # round half to even
            fl = self.real_floor(x)
            d = x - z3.ToReal(fl)
            half = z3.Q(1, 2)
            return mkint(z3.If(d < half, fl, z3.If(d > half, fl + 1, z3.If(fl % 2 == 0, fl, fl + 1))))
        raise Unsupported("real_to_int " + mode)

    def lemma_truncdiv(self, k, bits):
        """forall 0 <= a <= 2^bits: trunc(fp(a)/fp(k)) == a div k, decided once as a QF_BVFP query."""
        key = (k, bits)
        if key not in LEMMAS:
            _load_lemma_cache()
        if key not in LEMMAS:
            w = 64
            cb = z3.BitVec("cb", w)
            s = z3.Solver()
            s.set("timeout", 120000)
            s.add(z3.ULE(cb, 2 ** bits))
            f = z3.fpDiv(z3.RNE(), z3.fpSignedToFP(z3.RNE(), cb, F64), z3.FPVal(float(k), F64))
            q = z3.fpToSBV(z3.RTZ(), f, z3.BitVecSort(w))
            s.add(q != z3.UDiv(cb, z3.BitVecVal(k, w)))
            t0 = time.time()
            r = str(s.check())
            LEMMAS[key] = r
            _store_lemma(key, r)
            LEMMA_LOG.append({"lemma": f"forall 0<=a<=2^{bits}: trunc(fp(a)/fp({k})) == a div {k}", "result": r,
                              "solver_s": round(time.time() - t0, 2)})
            self.stats["lemma_s"] += time.time() - t0
        return LEMMAS[key] == "unsat"

    def round_int_to_double(self, v):
        """the integer value of float(n) for |n| <= 2**64: round to nearest, ties to even, on 53 significant bits,
        expressed in integer arithmetic (one case per binade)"""
        a = z3.If(v.t < 0, -v.t, v.t)
        res = a
        for k in range(63, 52, -1):
            u = 2 ** (k - 52)
            q = a / u
            r = a % u
            up = z3.Or(r > u // 2, z3.And(r == u // 2, q % 2 == 1))
            cond = a >= 2 ** k if k == 63 else z3.And(a >= 2 ** k, a < 2 ** (k + 1))
            res = z3.If(cond, (q + z3.If(up, 1, 0)) * u, res)
        return self.define_var("f_of_int", z3.If(v.t < 0, -res, res), -(2 ** 64), 2 ** 64)

    def float_to_int(self, v, mode="trunc"):
        """int(f) / math.floor(f) / math.ceil(f)"""
        if v.ival is not None:
            return v.ival
        if v.dec is not None and v.noise is not None:
            if mode != "trunc" or v.dec[2] > 14:
                raise Unsupported("floor/ceil/round of a float carrying rounding noise")
            clean = SymFloat(dec=v.dec)
            if v.dec[2] >= len(v.dec[1]) - 1:
                # the decimal is an integer N: the double is N, or a few ulp off - towards zero it truncates to |N| - 1
                n = self.rational(clean)[0]
                neg = v.dec[0]
                negt = z3.BoolVal(neg) if isinstance(neg, bool) else neg.t
                k = v.noise.t
                towards_zero = z3.If(negt, k > 0, k < 0)
                return mkint(z3.If(towards_zero, z3.If(negt, zint(n) + 1, zint(n) - 1), zint(n)))
            return self.float_to_int(clean, mode)       # fractional digits: a few ulp do not reach an integer
        if v.dec is not None and v.dec[2] >= len(v.dec[1]) - 1 and len(v.dec[1]) <= 15:
            return self.rational(v)[0]          # an integer-valued decimal of <= 15 digits: exact
        if v.real is not None or v.dec is not None:
            return self.real_to_int(self.real_of(v), mode)
        if v.quot is not None and v.quot[1] == 1 and isinstance(v.quot[0], SymInt) and \
                self.must(self.cmp("LtE", v.quot[0], 2 ** 64)) and self.must(self.cmp("GtE", v.quot[0], -(2 ** 64))):
            return self.round_int_to_double(v.quot[0])       # int(float(n)): float(n) is an integer already
        if v.quot is not None:
            a, k = v.quot
            bits = None
            if self.must(self.cmp("GtE", a, 0)):
                for bb in (15, 20, 24, 32):
                    if self.must(self.cmp("LtE", a, 2 ** bb)):
                        bits = bb
                        break
            if bits is None or not self.lemma_truncdiv(k, bits):
                # no exact cut available: IEEE enclosure of the correctly rounded quotient
                return self.real_to_int(self.real_of(v), mode)
            q = self.op("FloorDiv", a, k)
            if mode == "ceil":
                r = self.op("Mod", a, k)
                if self.truth(self.cmp("NotEq", r, 0)):
                    q = self.op("Add", q, 1)
            return q
        if self.decide(z3.Or(z3.fpIsNaN(v.t), z3.fpIsInf(v.t))):
            raise ValueError("cannot convert float NaN/inf to integer")
        rm = {"trunc": z3.RTZ(), "floor": z3.RTN(), "ceil": z3.RTP()}[mode]
        return mkint(z3.BV2Int(z3.fpToSBV(rm, v.t, z3.BitVecSort(128)), is_signed=True))

    # ---------------------------------------------------------------- sequences
    def seq_binop(self, op, a, b):
        t = type(op)
        if t is ast.Add:
            if isinstance(a, (SymStr, str, LazyStr)) and isinstance(b, (SymStr, str, LazyStr)):
                return self.concat_str([a, b])
            if isinstance(a, (SymBytes, bytes, bytearray)) and isinstance(b, (SymBytes, bytes, bytearray)):
                mut = a.mutable if isinstance(a, SymBytes) else isinstance(a, bytearray)
                return mkbytes(as_bytes_list(a) + as_bytes_list(b), mut)
            if isinstance(a, list) and isinstance(b, list):
                return a + b
            if isinstance(a, tuple) and isinstance(b, tuple):
                return a + b
            raise TypeError("unsupported operand type(s) for +")
        if t is ast.Mult:
            s, n = (a, b) if isinstance(a, (SymStr, SymBytes, LazyStr, str, bytes, bytearray, list, tuple)) else (b, a)
            n = self.concretize_int(n, "sequence repeat count")
            if isinstance(s, LazyStr):
                s = self.force_str(s)
            if isinstance(s, SymStr):
                return mkstr(s.cs * n)
            if isinstance(s, SymBytes):
                return mkbytes(s.bs * n, s.mutable)
            return s * n
        if t is ast.Mod:
            return LazyStr([("opaque", "%-format")])
        raise Unsupported("seq binop " + t.__name__)

    # ---------------------------------------------------------------- compare
    def compare(self, op, a, b):
        t = type(op)
        if t in (ast.Is, ast.IsNot):
            r = a is b
            return r if t is ast.Is else not r
        if t in (ast.In, ast.NotIn):
            r = self.contains(b, a)
            if t is ast.NotIn:
                return self.not_(r)
            return r
        if type(a).__name__ == "SymBlob" or type(b).__name__ == "SymBlob":
            from . import blob
            if t in (ast.Eq, ast.NotEq):
                r = blob.equal(self, a, b)
                return self.not_(r) if t is ast.NotEq else r
            raise Unsupported("blob ordering")
        if isinstance(a, (SymDT, SymTD)) or isinstance(b, (SymDT, SymTD)):
            from . import dtmodels
            return dtmodels.compare(self, t, a, b)
        if (isinstance(a, LazyStr) or isinstance(b, LazyStr)) and t in (ast.Eq, ast.NotEq):
            r = self.rope_eq(a, b)
            if r is not None:
                return self.not_(r) if t is ast.NotEq else r
        if isinstance(a, LazyStr):
            a = self.force_str(a)
        if isinstance(b, LazyStr):
            b = self.force_str(b)
        if isinstance(a, (SymStr, SymBytes)) or isinstance(b, (SymStr, SymBytes)):
            return self.seq_compare(t, a, b)
        if isinstance(a, SymFloat) or isinstance(b, SymFloat) or (
                (isinstance(a, float) or isinstance(b, float)) and (is_sym(a) or is_sym(b))):
            return self.float_compare(t, a, b)
        if isinstance(a, (SymInt, SymBV, SymBool)) or isinstance(b, (SymInt, SymBV, SymBool)):
            if not isinstance(a, INTLIKE) or not isinstance(b, INTLIKE):
                if t is ast.Eq:
                    return False
                if t is ast.NotEq:
                    return True
                raise TypeError(f"'{type(op).__name__}' not supported between {type(a).__name__} and {type(b).__name__}")
            if isinstance(a, SymBool) and isinstance(b, (SymBool, bool)) or isinstance(b, SymBool) and isinstance(a, bool):
                if t is ast.Eq:
                    return mkbool(zbool(a) == zbool(b))
                if t is ast.NotEq:
                    return mkbool(zbool(a) != zbool(b))
            if (isinstance(a, SymBV) or isinstance(b, SymBV)) and isinstance(a, (int, SymBV)) and isinstance(b, (int, SymBV)):
                ra, rb = self.bv_range(a), self.bv_range(b)
                # interval shortcut
                if t is ast.Lt and ra[1] < rb[0] or t is ast.LtE and ra[1] <= rb[0] or \
                        t is ast.Gt and ra[0] > rb[1] or t is ast.GtE and ra[0] >= rb[1]:
                    return True
                if t is ast.Lt and ra[0] >= rb[1] or t is ast.LtE and ra[0] > rb[1] or \
                        t is ast.Gt and ra[1] <= rb[0] or t is ast.GtE and ra[1] < rb[0]:
                    return False
                if t is ast.Eq and (ra[1] < rb[0] or rb[1] < ra[0]):
                    return False
                if t is ast.NotEq and (ra[1] < rb[0] or rb[1] < ra[0]):
                    return True
                x, y, w = bv_common(a, b)
                return mkbool(ZCMP[t](x, y))
            return mkbool(ZCMP[t](zint(a), zint(b)))
        if isinstance(a, (tuple, list)) and isinstance(b, (tuple, list)) and t in (ast.Eq, ast.NotEq):
            if isinstance(a, tuple) != isinstance(b, tuple):
                return t is ast.NotEq
            if len(a) != len(b):
                return t is ast.NotEq
            r = True
            for x, y in zip(a, b):
                c = self.compare(ast.Eq(), x, y)
                if c is False:
                    r = False
                    break
                r = self.and_(r, c)
            return self.not_(r) if t is ast.NotEq else r
        if isinstance(a, Opaque) or isinstance(b, Opaque):
            if t is ast.Eq:
                return a is b
            if t is ast.NotEq:
                return a is not b
            raise Unsupported("ordering on opaque value")
        # user-defined __eq__ in interpreted classes
        if t in (ast.Eq, ast.NotEq) and not isinstance(a, type):
            eq = _find_in_mro(type(a), "__eq__")
            if eq is not None and self.interpretable(eq):
                r = self.call_function(eq, [a, b], {})
                if r is not NotImplemented:
                    return self.not_(r) if t is ast.NotEq else r
        f = PYCMP[t]
        return f(a, b)

    def bv_range(self, v):
        if isinstance(v, int):
            return (v, v)
        if v.signed:
            return (-(2 ** (v.w - 1)), 2 ** (v.w - 1) - 1)
        return (0, 2 ** v.w - 1)

    def rational(self, v):
        """(num, den) with den a positive python int, when the float is the correctly rounded value of num/den"""
        if isinstance(v, SymFloat):
            if v.ival is not None:
                return (v.ival, 1)
            if v.quot is not None:
                return v.quot
            if v.dec is not None:
                if v.noise is not None:
                    raise Unsupported("exact value of a float carrying rounding noise")
                neg, digits, e10 = v.dec
                D = 0
                for d in digits:
                    D = self.op("Add", self.op("Mult", D, 10), d)
                if isinstance(neg, bool):
                    if neg:
                        D = self.neg(D)
                else:
                    D = mkint(z3.If(zbool(neg), -zint(D), zint(D)))
                scale = e10 - (len(digits) - 1)
                if scale >= 0:
                    return (self.op("Mult", D, 10 ** scale), 1)
                return (D, 10 ** (-scale))
            return None
        if isinstance(v, INTLIKE):
            return (v, 1)
        if isinstance(v, float) and v.is_integer():
            return (int(v), 1)
        if isinstance(v, float) and v == v and abs(v) != float("inf"):
            from fractions import Fraction
            # a concrete double is the exactly-rounded value of its shortest repr decimal
            fr = Fraction(repr(v))
            return (fr.numerator, fr.denominator)
        return None

    def float_compare(self, t, a, b):
        num = (int, float, SymInt, SymBV, SymFloat, SymBool)
        if not isinstance(a, num) or not isinstance(b, num):
            if t is ast.Eq:
                return False
            if t is ast.NotEq:
                return True
            raise TypeError("float compare with non-number")
        if t in (ast.Eq, ast.NotEq) and ((isinstance(a, SymFloat) and (a.quot is not None or a.dec is not None)) or
                                         (isinstance(b, SymFloat) and (b.quot is not None or b.dec is not None))):
            ra, rb = self.rational(a), self.rational(b)
            if ra is not None and rb is not None:
                # equal rationals round to equal doubles (sufficient; a counterexample must replay natively)
                r = self.cmp("Eq", self.op("Mult", ra[0], rb[1]), self.op("Mult", rb[0], ra[1]))
                return self.not_(r) if t is ast.NotEq else r
        if isinstance(a, SymFloat) and a.dec is not None and isinstance(b, (int, float)) and not isinstance(b, bool) and b == 0:
            # a decimal-defined float is non-zero: its sign decides
            neg = a.dec[0]
            return {ast.Eq: lambda: False, ast.NotEq: lambda: True, ast.Lt: lambda: neg, ast.LtE: lambda: neg,
                    ast.Gt: lambda: self.not_(neg), ast.GtE: lambda: self.not_(neg)}[t]()
        ia = a.ival if isinstance(a, SymFloat) else (a if isinstance(a, INTLIKE) else None)
        ib = b.ival if isinstance(b, SymFloat) else (b if isinstance(b, INTLIKE) else None)
        if isinstance(a, float) and a.is_integer():
            ia = int(a)
        if isinstance(b, float) and b.is_integer():
            ib = int(b)
        if ia is not None and ib is not None:
            return self.compare(t(), ia, ib)
        # exact comparison of an integral value with a non-integral float constant
        if ia is not None and isinstance(b, float) and b == b and abs(b) != float("inf"):
            import math
            fl = math.floor(b)
            return {ast.Eq: lambda: False, ast.NotEq: lambda: True,
                    ast.Lt: lambda: self.cmp("LtE", ia, fl), ast.LtE: lambda: self.cmp("LtE", ia, fl),
                    ast.Gt: lambda: self.cmp("Gt", ia, fl), ast.GtE: lambda: self.cmp("Gt", ia, fl)}[t]()
        if ib is not None and isinstance(a, float) and a == a and abs(a) != float("inf"):
            flip = {ast.Eq: ast.Eq, ast.NotEq: ast.NotEq, ast.Lt: ast.Gt, ast.LtE: ast.GtE, ast.Gt: ast.Lt, ast.GtE: ast.LtE}[t]
            return self.float_compare(flip, b, a)
        if (self.is_realkind(a) or self.is_realkind(b)) and not (isinstance(a, SymFloat) and a.t is not None) \
                and not (isinstance(b, SymFloat) and b.t is not None):
            return mkbool(ZCMP[t](self.real_of(a), self.real_of(b)))
        return mkbool(FCMP[t](self.to_fp(a), self.to_fp(b)))

    def seq_compare(self, t, a, b):
        if isinstance(a, (SymStr, str)) and isinstance(b, (SymStr, str)):
            ca, cb = chars(a), chars(b)
        elif isinstance(a, (SymBytes, bytes, bytearray)) and isinstance(b, (SymBytes, bytes, bytearray)):
            ca, cb = as_bytes_list(a), as_bytes_list(b)
        else:
            if t is ast.Eq:
                return False
            if t is ast.NotEq:
                return True
            raise TypeError("ordering between incompatible sequence types")
        if t in (ast.Eq, ast.NotEq):
            if len(ca) != len(cb):
                return t is ast.NotEq
            r = True
            for x, y in zip(ca, cb):
                c = self.compare(ast.Eq(), x, y)
                if c is False:
                    r = False
                    break
                r = self.and_(r, c)
            return self.not_(r) if t is ast.NotEq else r
        # lexicographic ordering
        strict = t in (ast.Lt, ast.Gt)
        lt = t in (ast.Lt, ast.LtE)
        res = (len(ca) < len(cb)) if lt else (len(ca) > len(cb))
        if len(ca) == len(cb):
            res = not strict
        for x, y in reversed(list(zip(ca, cb))):
            c1 = self.compare(ast.Lt() if lt else ast.Gt(), x, y)
            ceq = self.compare(ast.Eq(), x, y)
            res = self.or_(c1, self.and_(ceq, res))
        return res

    def rope_eq(self, a, b):
        """equality of unexpanded strings without expanding the ints, when that is exact; else None"""
        if isinstance(a, LazyStr) and isinstance(b, LazyStr) and len(a.parts) == len(b.parts) and \
                all((p == q) if isinstance(p, str) and isinstance(q, str) else
                    (isinstance(p, tuple) and isinstance(q, tuple) and p[0] == q[0] and p[1] is q[1])
                    for p, q in zip(a.parts, b.parts)):
            return True                                   # part for part the same pieces: the same string

        def norm(x):
            if isinstance(x, str):
                return [x]
            if not isinstance(x, LazyStr):
                return None
            out = []
            for p in x.parts:
                if isinstance(p, str):
                    if out and isinstance(out[-1], str):
                        out[-1] += p
                    elif p:
                        out.append(p)
                elif isinstance(p, tuple) and p[0] == "int":
                    out.append(p)
                else:
                    return None
            # every int part must be delimited by non-digit literals
            for i, p in enumerate(out):
                if isinstance(p, tuple):
                    if i > 0 and (isinstance(out[i - 1], tuple) or out[i - 1][-1].isdigit() or out[i - 1][-1] == "-"):
                        return None
                    if i + 1 < len(out) and (isinstance(out[i + 1], tuple) or out[i + 1][0].isdigit()):
                        return None
            return out
        na, nb = norm(a), norm(b)
        if na is None or nb is None:
            return None
        if len(nb) == 1 and isinstance(nb[0], str) and not (len(na) == 1 and isinstance(na[0], str)):
            na, nb = nb, na
        if len(na) == 1 and isinstance(na[0], str) and any(isinstance(p, tuple) for p in nb):
            # concrete string against a rope: match literals, parse ints
            text = na[0]
            res = True
            pos = 0
            for i, p in enumerate(nb):
                if isinstance(p, str):
                    if not text.startswith(p, pos):
                        return False
                    pos += len(p)
                else:
                    nxt = nb[i + 1] if i + 1 < len(nb) else None
                    end = len(text) if nxt is None else text.find(nxt[0], pos)
                    # the int literal extends to the first occurrence of the next literal's first char that is not part of a number
                    j = pos
                    if j < len(text) and text[j] == "-":
                        j += 1
                    while j < len(text) and text[j].isdigit():
                        j += 1
                    lit = text[pos:j]
                    if lit in ("", "-") or (lit.lstrip("-") != "0" and lit.lstrip("-").startswith("0")) or lit == "-0":
                        return False
                    res = self.and_(res, self.cmp("Eq", p[1], int(lit)))
                    pos = j
            if pos != len(text):
                return False
            return res
        if len(na) != len(nb):
            return None
        res = True
        for p, q in zip(na, nb):
            if isinstance(p, str) != isinstance(q, str):
                return None
            if isinstance(p, str):
                if p != q:
                    return False
            else:
                res = self.and_(res, self.cmp("Eq", p[1], q[1]))
        return res

    # boolean combinators over python bool / SymBool
    def not_(self, r):
        if isinstance(r, SymBool):
            return mkbool(z3.Not(r.t))
        return not self.truth(r)

    def and_(self, a, b):
        if a is False or b is False:
            return False
        if a is True:
            return b
        if b is True:
            return a
        return mkbool(z3.And(zbool(a), zbool(b)))

    def or_(self, a, b):
        if a is True or b is True:
            return True
        if a is False:
            return b
        if b is False:
            return a
        return mkbool(z3.Or(zbool(a), zbool(b)))

    def contains(self, container, item):
        if isinstance(container, LazyStr):
            container = self.force_str(container)
        if isinstance(item, LazyStr) and isinstance(container, (str, SymStr)):
            item = self.force_str(item)
        if isinstance(container, (str, SymStr)):
            if not isinstance(item, (str, SymStr)):
                raise TypeError("'in <string>' requires string as left operand")
            cc, ci = chars(container), chars(item)
            if len(ci) == 0:
                return True
            r = False
            for i in range(len(cc) - len(ci) + 1):
                m = True
                for j in range(len(ci)):
                    m = self.and_(m, self.compare(ast.Eq(), cc[i + j], ci[j]))
                    if m is False:
                        break
                r = self.or_(r, m)
                if r is True:
                    break
            return r
        if isinstance(container, (bytes, bytearray, SymBytes)):
            bl = as_bytes_list(container)
            r = False
            for x in bl:
                r = self.or_(r, self.compare(ast.Eq(), x, item))
            return r
        if isinstance(container, dict):
            extra = self.symdicts.get(id(container))
            if extra is not None or is_sym(item):
                r = False
                if extra is not None:
                    for k, _ in extra[1]:
                        r = self.or_(r, self.compare(ast.Eq(), item, k))
                for k in container:
                    r = self.or_(r, self.compare(ast.Eq(), item, k))
                return r
            if isinstance(item, (tuple,)) and any(is_sym(x) for x in item):
                r = False
                for k in container:
                    r = self.or_(r, self.compare(ast.Eq(), item, k))
                return r
            return item in container
        if isinstance(container, set) and id(container) in self.symsets:
            container = list(container) + list(self.symsets[id(container)][1])
        if isinstance(container, (list, tuple, set, frozenset)) or type(container).__name__ in ("dict_keys", "dict_values"):
            r = False
            for k in container:
                c = self.compare(ast.Eq(), item, k)
                r = self.or_(r, c)
                if r is True:
                    break
            return r
        co = _find_in_mro(type(container), "__contains__")
        if co is not None and self.interpretable(co):
            return self.call_function(co, [container, item], {})
        if type(container).__name__ == "SymRange" and container.step == 1 and isinstance(item, INTLIKE):
            # int in range(lo, hi): lo <= item < hi
            return self.and_(self.cmp("GtE", item, container.lo), self.cmp("Lt", item, container.hi))
        if isinstance(container, range) and container.step == 1 and isinstance(item, (SymInt, SymBV)):
            return self.and_(self.cmp("GtE", item, container.start), self.cmp("Lt", item, container.stop))
        if is_sym(item):
            raise Unsupported(f"'in' on {type(container).__name__} with symbolic item")
        return item in container


def _find_in_mro(cls, name):
    for k in cls.__mro__:
        if name in k.__dict__:
            return k.__dict__[name]
    return None
