"""C06 - what is read does not depend on meaning-preserving choices of storage layout."""
from struct import pack

from numbers_parser.generated import TSTArchives_pb2 as TSTArchives
from numbers_parser.model import DataLists, _NumbersModel, get_storage_buffers_for_row
from numbers_parser.numbers_cache import Cacheable

from pysym.api import BoolDom, BVDom, Cases, Harness, IntDom, StrDom, assume, concretize, cover


class Rec:
    def __init__(self, **kw):
        self.__dict__.update(kw)


# ------------------------------------------------------------------------------------------------ H06a
class StubModelDL(Cacheable):
    table_string = _NumbersModel.table_string
    table_string_key = _NumbersModel.table_string_key
    init_table_strings = _NumbersModel.init_table_strings

    def __init__(self, entries):
        datalist = Rec(entries=entries, nextListID=99)
        self.objects = {7: Rec(base_data_store=Rec(stringTable=Rec(identifier=8))), 8: datalist}
        self._table_strings = DataLists(self, "stringTable", "string")


def h06a_lookup(k0, k1, k2, k3, k4, n):
    """a lookup by key finds the entry carrying that key, wherever the entry sits in the list"""
    keys = [k0, k1, k2, k3, k4][:n]
    for i in range(n):
        assume(keys[i] >= 1)
        for j in range(i):
            assume(keys[i] != keys[j])
    entries = [Rec(key=keys[i], string="text-%d" % i, refcount=1) for i in range(n)]
    model = StubModelDL(entries)
    dl = model._table_strings
    for i in range(n):
        assert dl.lookup_value(7, keys[i]) is entries[i]
        assert model.table_string(7, keys[i]) == "text-%d" % i          # never degrades to ''
    # an existing value is found again under its own key; a new value gets a key no entry uses
    for i in range(n):
        assert model.table_string_key(7, "text-%d" % i) == keys[i]
    nk = model.table_string_key(7, "brand new")
    for i in range(n):
        assert nk != keys[i]
    assert model.table_string(7, nk) == "brand new"


def h06a_rekey(k0, k1, k2):
    """after init (save path) + re-keying: lookup_key is injective and lookup_value . lookup_key = id"""
    keys = [k0, k1, k2]
    for i in range(3):
        assume(keys[i] >= 1)
        for j in range(i):
            assume(keys[i] != keys[j])
    entries = [Rec(key=keys[i], string="old-%d" % i, refcount=1) for i in range(3)]
    model = StubModelDL(entries)
    model.init_table_strings(7)
    vals = ["a", "b", "a", "c"]
    got = [model.table_string_key(7, v) for v in vals]
    assert got[0] == got[2]
    assert got[0] != got[1] and got[1] != got[3] and got[0] != got[3]
    for v, k in zip(vals, got):
        assert model.table_string(7, k) == v
    assert len(model.objects[8].entries) == 3


def h06a_two_saves(v0, v1, v2, new_first):
    """saving twice from the same open document: each save empties the string list and re-keys it; after the second save
    every text value still has a key of its own whose entry in the stored list carries exactly that value"""
    entries = [Rec(key=5, string="old", refcount=1)]
    model = StubModelDL(entries)

    def save(vals):
        model.init_table_strings(7)
        return [model.table_string_key(7, v) for v in vals]

    first = [v0, v1]
    save(first)
    second = [v2, v0, v1] if new_first else [v0, v1, v2]
    keys = save(second)
    stored = model.objects[8].entries
    for v, k in zip(second, keys):
        hits = [e for e in stored if e.key == k]
        assert len(hits) == 1                       # the key exists exactly once in the saved list
        assert hits[0].string == v                  # and carries this cell's text
    for i in range(3):
        for j in range(i):
            assert (keys[i] == keys[j]) == (second[i] == second[j])


def h06a_texts(v0, v1, w):
    """the string list keeps texts apart exactly when they differ as code-point sequences - canonically equivalent texts
    (U+212B / U+00C5 / 'A' + U+030A, U+2126 / U+03A9) and texts of different lengths each keep their own entry"""
    model = StubModelDL([Rec(key=5, string="old", refcount=1)])
    model.init_table_strings(7)
    vals = [v0, v1, w]
    keys = [model.table_string_key(7, v) for v in vals]
    stored = model.objects[8].entries
    for v, k in zip(vals, keys):
        hits = [e for e in stored if e.key == k]
        assert len(hits) == 1
        assert hits[0].string == v
        assert model.table_string(7, k) == v
    for i in range(3):
        for j in range(i):
            assert (keys[i] == keys[j]) == (vals[i] == vals[j])


def _list_entry(eng, **kw):
    return Rec(**kw)


# ------------------------------------------------------------------------------------------------ H06b
def h06b_offsets(p0, p1, p2, p3, l0, l1, l2, l3):
    """narrow (byte) and wide (4-byte unit) offset encodings of the same row decode to the same buffers"""
    present = [p0, p1, p2, p3]
    lens = [l0, l1, l2, l3]
    blobs = []
    narrow = []
    wide = []
    pos = 0
    storage = b""
    for i in range(4):
        if present[i]:
            n = 4 * concretize(lens[i])
            blob = bytes([65 + i]) * n
            blobs.append(blob)
            narrow.append(pos)
            wide.append(pos >> 2)
            storage += blob
            pos += n
        else:
            blobs.append(None)
            narrow.append(-1)
            wide.append(-1)
    nb = pack("<4h", *narrow)
    wb = pack("<4h", *wide)
    a = get_storage_buffers_for_row(storage, nb, 4, False)
    b = get_storage_buffers_for_row(storage, wb, 4, True)
    assert a == blobs
    assert b == blobs
    # columns beyond the stored offsets are simply absent
    c = get_storage_buffers_for_row(storage, nb, 6, False)
    assert c == blobs


# ------------------------------------------------------------------------------------------------ H06c
class StubModelRows(Cacheable):
    row_storage_map = _NumbersModel.row_storage_map
    storage_buffers = _NumbersModel.storage_buffers
    storage_buffer = _NumbersModel.storage_buffer
    table_tiles = _NumbersModel.table_tiles
    number_of_columns = _NumbersModel.number_of_columns

    def __init__(self, objects):
        self.objects = objects


def h06c_rows(has0, has1, has2, has3, hdr0, hdr1, hdr2, hdr3, zr0, zr1, zr2, zr3, split, wide, tile_flag, rev=False):
    """every stored row is reported at the index its own record declares, whether or not empty rows have header records,
    however the rows are spread over tiles, and whichever offset encoding each row record declares"""
    R = 4
    has = [has0, has1, has2, has3]
    hdr = [hdr0, hdr1, hdr2, hdr3]
    zero_rec = [zr0, zr1, zr2, zr3]           # an empty row may also have an explicit row record holding no cells
    tile_size = 2 if split else 256
    tiles = {}
    headers = []
    for r in range(R):
        if has[r]:
            blob = bytes([48 + r]) * 12 + bytes([97 + r]) * 8
            offs = pack("<2h", 0, 3) if wide else pack("<2h", 0, 12)
            ri = Rec(tile_row_index=r % tile_size, cell_storage_buffer=blob, cell_offsets=offs, has_wide_offsets=wide, cell_count=2)
            tiles.setdefault(r // tile_size, []).append(ri)
            headers.append(Rec(index=r, numberOfCells=2))
        else:
            if zero_rec[r]:
                ri = Rec(tile_row_index=r % tile_size, cell_storage_buffer=b"", cell_offsets=pack("<2h", -1, -1),
                         has_wide_offsets=wide, cell_count=0)
                tiles.setdefault(r // tile_size, []).append(ri)
            if hdr[r]:
                headers.append(Rec(index=r, numberOfCells=0))       # explicit header record for an empty row
    objects = {7: None, 30: Rec(headers=headers)}
    tile_refs = []
    for tid in sorted(tiles, reverse=rev):        # the tile list may name the tiles in any order: each carries its tileid
        # the tile-level hint is independent of what each row record declares
        objects[40 + tid] = Rec(rowInfos=tiles[tid], last_saved_in_BNC=True, should_use_wide_rows=tile_flag)
        tile_refs.append(Rec(tileid=tid, tile=Rec(identifier=40 + tid)))
    objects[7] = Rec(number_of_rows=R, number_of_columns=3,
                     base_data_store=Rec(rowHeaders=Rec(buckets=[Rec(identifier=30)]),
                                         tiles=Rec(tiles=tile_refs, tile_size=tile_size, should_use_wide_rows=tile_flag)))
    m = StubModelRows(objects)
    for r in range(R):
        buf = m.storage_buffer(7, r, 0)
        if has[r]:
            assert buf == bytes([48 + r]) * 12
            assert m.storage_buffer(7, r, 1) == bytes([97 + r]) * 8
        else:
            assert buf is None
            assert m.storage_buffer(7, r, 1) is None
        assert m.storage_buffer(7, r, 2) is None


_UNI1 = [(0x41, 0x41), (0xC5, 0xC5), (0x212B, 0x212B), (0x3A9, 0x3A9), (0x2126, 0x2126), (0xE9, 0xE9)]
_UNI2 = [(0x41, 0x41), (0x65, 0x65), (0x30A, 0x30A), (0x301, 0x301), (0xC5, 0xC5)]

HARNESSES = [
    Harness("H06a", h06a_lookup, lambda tier: dict(k0=IntDom(), k1=IntDom(), k2=IntDom(), k3=IntDom(), k4=IntDom(), n=Cases([1, 2, 3, 4] if tier == "quick" else [1, 2, 3, 4, 5])),
            bounds="1..4 (quick) / 1..5 (thorough) entries with symbolic pairwise-distinct positive keys in any order (unbounded Int)",
            stubs=["object store = dict of attribute bags; ListEntry constructor = attribute bag"],
            outside=["zip member order / compression method / package-folder form (zipfile and file-system I/O)",
                     "format / style / formula lookup lists share the same DataLists code; only the string list is driven"],
            models={TSTArchives.TableDataList.ListEntry: _list_entry}),
    Harness("H06a-rekey", h06a_rekey, dict(k0=IntDom(), k1=IntDom(), k2=IntDom()),
            bounds="3 stale entries with symbolic keys, then init + 4 lookups (one repeated value)",
            models={TSTArchives.TableDataList.ListEntry: _list_entry}),
    Harness("H06a-two-saves", h06a_two_saves,
            dict(v0=StrDom(1, [(97, 99)]), v1=StrDom(1, [(97, 99)]), v2=StrDom(1, [(97, 99)]), new_first=BoolDom()),
            bounds="two consecutive saves of one open document; three one-character text values a..c (every equality pattern), the value "
                   "added between the saves encoded first or last",
            models={TSTArchives.TableDataList.ListEntry: _list_entry}),
    Harness("H06a-texts", h06a_texts,
            dict(v0=StrDom(1, _UNI1), v1=StrDom(1, _UNI1), w=StrDom(2, _UNI2)),
            bounds="three texts entered in one save: two of one character over {A, U+00C5, U+212B, U+03A9, U+2126, U+00E9} and one of two "
                   "characters over {A, e, U+030A, U+0301, U+00C5} - every pair that is equal only after Unicode normalisation is in the product",
            models={TSTArchives.TableDataList.ListEntry: _list_entry}),
    Harness("H06b", h06b_offsets,
            dict(p0=BoolDom(), p1=BoolDom(), p2=BoolDom(), p3=BoolDom(), l0=IntDom(1, 3), l1=IntDom(1, 3), l2=IntDom(1, 3), l3=IntDom(1, 3)),
            bounds="4 columns, any subset present, record lengths 4/8/12 bytes", stubs=["array('h') model: 16-bit signed little-endian split"]),
    Harness("H06c", h06c_rows,
            dict(has0=BoolDom(), has1=BoolDom(), has2=BoolDom(), has3=BoolDom(), hdr0=BoolDom(), hdr1=BoolDom(), hdr2=BoolDom(),
                 hdr3=BoolDom(), zr0=BoolDom(), zr1=BoolDom(), zr2=BoolDom(), zr3=BoolDom(), split=BoolDom(), wide=BoolDom(), tile_flag=BoolDom(),
                 rev=Cases([False, True])),
            bounds="4 rows x 2 stored cells, any subset stored, header records and / or explicit zero-cell row records for any subset of the empty rows, one tile or tiles of 2 rows listed in ascending or descending tile order, narrow or wide offsets per row record, tile-level wide hint set or not",
            stubs=["object store = dict of attribute bags"]),
]
PROPERTY = "C06"
