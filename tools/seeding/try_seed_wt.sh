#!/bin/sh
# usage: try_seed_wt.sh <PROP> <seed_dir> [extra check args]: run the check against a scratch worktree with the patch (no change to /repo)
P=$1; D=$2; shift 2
WT=/tmp/ts_$P_$$
cp /verif/evidence/$P.json /tmp/evidence_$P.bak 2>/dev/null
git -C /repo worktree add -q --detach $WT HEAD || exit 9
git -C $WT apply $D/patch.diff || { echo APPLY-FAILED; git -C /repo worktree remove --force $WT; exit 9; }
cd /verif && PYTHONPATH=$WT/src ./check $P "$@" 2>&1 | grep -a "VIOLATION\|INCONCLUSIVE\|HARNESS\|harness=\|exit=" | cut -c1-300 | head -10
git -C /repo worktree remove --force $WT
cp /tmp/evidence_$P.bak /verif/evidence/$P.json 2>/dev/null
