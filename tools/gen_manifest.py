#!/usr/bin/env python3
"""Regenerates /verif/MANIFEST.json from the table below (and validates it)."""
import json
import os
import sys

ROOT = os.path.dirname(os.path.dirname(os.path.abspath(__file__)))

TECH = "bounded symbolic execution of the real Python source (pysym AST interpreter) + z3 SMT queries; native replay of counterexamples and path witnesses"

# property -> (design_ref, level text, level note)
CLAIMED = {
    "C19": ("DESIGN.md §4 C19",
            "For every Python int index (unbounded) and 0..4 items, and for all 1-2 character printable-ASCII names, "
            "z3 shows lookup/membership of the real ItemsList agree with list semantics; bounded claim, not a proof.",
            "trusted: pysym interpreter (validated by native witness replay on every run), z3; outside: save/reopen order, "
            "longer/non-ASCII names"),
}

CLAIMED["C10"] = ("DESIGN.md §4 C10",
    "Over symbolic ranges (rows 0..10^6, columns 0..18277, both '$' flags, every negative int) z3 shows the real xl_* "
    "functions are mutually inverse, bijective base-26, order preserving, collapse ranges iff corners coincide, and agree "
    "with the tokenizer's second decoder; float division discharged by a QF_BVFP lemma.",
    "trusted: pysym interpreter + regex alphabet-partition model + lemma cut; outside: columns beyond 'ZZZ', rows beyond 10^6")
CLAIMED["C04"] = ("DESIGN.md §4 C04",
    "116 fully symbolic record bytes decoded by the real Cell._from_storage are compared field by field with a reference "
    "walker written from the published layout (flag subsets up to a popcount bound + all-ones); encode/decode round trip of "
    "the real _to_buffer/_from_storage over presence subsets of the 12 optional ids with symbolic 32-bit ids.",
    "trusted: pysym, struct model, model stubs for string/rich-text tables; decimal128 arithmetic is an uninterpreted "
    "function here (C01 decides it); flag words beyond the popcount bound are outside the claim")

CLAIMED["C18"] = ("DESIGN.md §4 C18",
    "Every string of up to 3 arbitrary Unicode scalar values is tokenized symbolically by the real "
    "Tokenizer: z3 shows the only escaping exception is TokenizerError and the token texts concatenate to the input; quoted "
    "strings over a 8-symbol alphabet up to length 5 are never split.",
    "trusted: pysym, regex alphabet-partition model, float(str) outcome model; outside: longer strings, fixture formulas; reader output limited to string+integer+reference operands, one operator, one function")
CLAIMED["C11"] = ("DESIGN.md §4 C11",
    "Row/column arguments are unbounded symbolic ints: z3 shows Table.cell, write, set_cell_style (through "
    "_validate_cell_coords) and iter_rows/iter_cols of the real code address exactly the stated cell/rectangle, agree with "
    "the A1 form, raise IndexError outside, and grow the table to exactly the needed size (small-scope shapes).",
    "trusted: pysym; Table built directly over real cells with a stub model; outside: growth > 3, shapes beyond 3x2, "
    "set_cell_formatting/set_cell_border beyond the shared coordinate check")

CLAIMED["C03"] = ("DESIGN.md §4 C03",
    "One inductive step from an arbitrary valid table state: for add_row/add_column/delete_row/delete_column/write with "
    "every integer start index (or None), counts 1..3 and optional default, z3 shows the real Table code yields exactly the "
    "grid a plain list-of-lists yields, restores the representation invariant (each cell reports its own position), and "
    "rejects out-of-range starts without change. By induction: histories of any length over these operations (small-scope shapes).",
    "trusted: pysym; stub model (row/column counters, empty merge map); outside: save/reopen, add_table/add_sheet cloning, "
    "isolation between documents, shapes beyond 3x2")
CLAIMED["C12"] = ("DESIGN.md §4 C12",
    "All rectangles in tables up to 3x3 (and disjoint pairs given as a list): z3 shows anchor, placeholders, untouched cells "
    "and merge_ranges of the real merge_cells/_set_merge are exactly the rectangle; the real merge-map writer/reader pair is "
    "checked as a codec over symbolic origins within the table limits; one insertion step after a merge. Two known findings.",
    "trusted: pysym; record stubs for protobuf CellID/TableSize (uint32 range enforced); outside: reload through real archives")

CLAIMED["C06"] = ("DESIGN.md §4 C06",
    "Real DataLists/table_string code over 1..4 lookup-list entries with symbolic distinct keys in any order (lookup finds "
    "the entry, re-keying is injective); narrow vs wide row offsets decode identically; every stored row is reported at the "
    "index its record declares for any subset of stored rows / header records / tile split (4 rows).",
    "trusted: pysym; object store and protobuf records are attribute bags; outside: zip member order, compression method, "
    "package-folder form, chunk boundaries (C05)")

CLAIMED["C08"] = ("DESIGN.md §4 C08",
    "One step of the formula stack machine per node kind, driven through the real TableFormulas.formula dispatch with the "
    "node type symbolic over the real enum and operands arbitrary symbolic strings: operator glyph and operand order, "
    "function names over the real map, list/array joining, string/boolean/integer literals, qualified ranges; two-step "
    "composition for all operator pairs. By induction over the post-fix array this covers programs of any depth.",
    "trusted: pysym; nodes are attribute bags; model stub echoes reference text; outside: date literals, formula_ast, Numbers' own display")

CLAIMED["C17"] = ("DESIGN.md §4 C17",
    "Faults are symbolic: archive members of 0..8 arbitrary bytes through the real _store_blob/is_iwa_file, a zip container "
    "whose every member read may fail in each way the stdlib documents, plist parsing that may fail or lack the key, decoders "
    "that may raise any Exception or return archives of any small shape: z3 shows only FileError/FileFormatError/"
    "UnsupportedError leave IWork.open, _store_blob and ObjectStore.__init__.",
    "trusted: pysym; environment stubs (ZipFile, plistlib.loads, IWAFile.from_buffer outcome, Path) active in symbolic and "
    "native runs alike; outside: which bytes make zlib/snappy/protobuf fail, package-folder form, OS-level I/O errors")

CLAIMED["C14"] = ("DESIGN.md §4 C14",
    "Each numeric date/time directive of the real DATETIME_FIELD_MAP is rendered for symbolic clock fields (all hours, "
    "minutes, seconds, microseconds) and symbolic calendar fields (all valid dates of years 1000..9999): z3 shows the "
    "text has the documented width and denotes the field; the real format scanner equals a reference scanner on every "
    "format string of <= 3/4 arbitrary characters; whole-second durations read back unit by unit for all unit pairs and styles.",
    "trusted: pysym, exact-integer datetime/strftime model (C locale), lemma cut for int(d/k); outside: names, W/ww/F, "
    "sub-second durations, automatic units")

CLAIMED["C01"] = ("DESIGN.md §4 C01",
    "Record-level write/read: the real Cell._from_value -> _to_buffer -> _from_storage (incl. decimal128 pack/unpack) is "
    "executed for every int |n|<10^15, every float given by 1..15 symbolic significant digits at each decimal exponent "
    "-290..289 (quick: every 10th + boundaries), both bools, whole-second datetimes of years 1..9999 and durations within "
    "+-100 years: z3 shows the decoded value equals the written one exactly (rational equality => equal doubles).",
    "trusted: pysym; repr/Decimal digit contract; int/int division correctly rounded; sigfig identity on <=15 digits; string "
    "table stub; outside: tiles/protobuf/snappy/zip/reopen, sub-second dates and durations, text characters")

CLAIMED["C02"] = ("DESIGN.md §4 C02",
    "Per-record re-save fix-point on the real codec: for 116 symbolic record bytes of each storable kind carrying only "
    "fields the writer knows, decode -> encode -> decode gives the same class, payload and ids, reading accessors in "
    "between changes nothing, and a second encode is byte-identical. The document-level quantifier is outside this technique.",
    "trusted: pysym; decimal128 pack/unpack treated as mutually inverse uninterpreted functions here (C01 decides values); "
    "string table stub; outside: whole documents, fixtures, formula text, bullets, merge maps, IWA copy-back")

CLAIMED["C16"] = ("DESIGN.md §4 C16",
    "The real row_height/col_width readers and recalculate_row_headers/recalculate_column_headers writers are run as a "
    "read-write-reopen cycle (1..3 times) over header records with symbolic stored sizes 1..10000 points, borders of width "
    "0/1/3, queried or not, set through the API or not: z3 shows sizes come back equal (known finding: drift with borders "
    ">= 2); header-count setters reject every int outside 0..min(size,5) without change.",
    "trusted: pysym, exact half-integer float model; header records are attribute bags; outside: names, captions, "
    "visibility, coordinates, non-integral stored sizes")

CLAIMED["C07"] = ("DESIGN.md §4 C07",
    "The real recalculate_row_info (offsets in bounds, 4-byte aligned, increasing, decoded back by the library's own "
    "reader), the real tile loop of recalculate_table_data for a symbolic number of rows across the 256/512 boundaries "
    "(every row in exactly one tile at its declared index), and the real ObjectStore id allocation for symbolic existing "
    "ids (fresh, distinct, high-water mark updated).",
    "trusted: pysym; protobuf records and the object store are attribute bags, other save steps are no-op stubs; outside: "
    "reference closure, package metadata listing, re-openability by Numbers")

CLAIMED["C13"] = ("DESIGN.md §4 C13 (partial)",
    "Decorations only decorate: the real _format_decimal/_format_currency run with the rounding step (sigfig) replaced by "
    "a stub returning symbolic digit strings; z3 shows that for every digit string, negative style, separator setting, "
    "decimals, percent, accounting layout and currency code the output minus its decorations is exactly those digits and "
    "the sign is shown exactly once. That the digits are the correctly rounded value is NOT claimed.",
    "trusted: pysym; sigfig contract stub (active natively too); outside: numeric correctness of rounding, scientific, "
    "base, fraction and custom formats")

CLAIMED["C05"] = ("DESIGN.md §4 C05",
    "Container arithmetic of the real IWACompressedChunk.to_buffer / _decompress_all / is_iwa_file with the uncompressed "
    "stream an opaque buffer of SYMBOLIC length (0..131073 quick, 0..262145 thorough) and payload lengths symbolic: every "
    "frame has marker 0x00, a 3-byte length equal to its payload, at most 65536 data bytes, frames' data concatenates to "
    "the stream; decoding k<=3 frames of symbolic lengths returns the per-frame data in order.",
    "trusted: pysym rope model; snappy contract stub (compress bound, uncompress inverse); outside: protobuf/snappy bytes, "
    "segment layer (ArchiveInfo parsing), fixture archives, unknown-field preservation")

CLAIMED["C09"] = ("DESIGN.md §4 C09",
    "The real node_to_ref -> CellRange.__str__ -> xl_rowcol_to_cell chain is run for symbolic host cells and stored "
    "offsets/coordinates anywhere inside the table limits with all absolute-flag combinations (single cells and rectangles), "
    "and the printed text is read back by an independent A1 parser; cross-table references over 2 sheets x 2 tables with "
    "symbolic names resolve to exactly the stored table.",
    "trusted: pysym; formula nodes are attribute bags; model stub for names; no header labels; outside: named (header) "
    "references, row/column spans, uuid map from archives, cache invalidation history")

CLAIMED["C15"] = ("DESIGN.md §4 C15 (partial)",
    "Border edge model only: through the real Table.set_cell_border, model.set_cell_border, cell_for_stroke and CellBorder "
    "setters on a 3x3 table with symbolic positions: a stroke is reported by its cell and as the opposite side by the "
    "neighbour, nothing else changes, and of two overlapping strokes (from either cell sharing the edge) the later wins. "
    "Style attribute round trips are NOT claimed.",
    "trusted: pysym; add_stroke reduced to its order stamp; outside: style archives (nested protobuf), images, fonts, stroke "
    "run patching in saved layers, merged cells")

NOT_APPLICABLE = {"C20": "not applicable to this technique here: the deciding behaviour lives in the C-level csv reader/writer and strtod "
                  "(float coercion) and in whole-program document I/O (Document.save / reopen); what remains in Python "
                  "(Converter._transform_data) is pandas-style column plumbing over those results - no kernel within reach of "
                  "bounded symbolic execution whose verdict would say anything about CSV round trips"}


def main():
    props = [json.loads(l) for l in open(os.path.join(ROOT, "properties.jsonl"))]
    checks = []
    for p in props:
        pid = p["id"]
        if pid not in CLAIMED:
            continue
        ref, text, note = CLAIMED[pid]
        checks.append(dict(
            property_id=pid,
            quick_cmd=f"./check {pid} --tier quick",
            thorough_cmd=f"./check {pid} --tier thorough",
            evidence_file=f"/verif/evidence/{pid}.json",
            replay_cmd_template="./replay {path}",
            engine="pysym",
            level_claimed=dict(category="model_checking", text=text, design_ref=ref),
            level_note=note,
            technique=TECH,
        ))
    na = []
    for p in props:
        if p["id"] not in CLAIMED:
            na.append(dict(property_id=p["id"], reason=NOT_APPLICABLE.get(p["id"], "check not built yet in this framework (work in progress)")))
    man = dict(
        version=1,
        setup_cmd="sh ./setup.sh",
        hooks=dict(guard="NUMBERS_PARSER_VERIF", enable="no hooks are needed: stubs live in /verif/specs; the checks import /repo/src directly",
                   baseline_off_cmd="cd /repo && /venv/bin/python -m pytest -ra -q -p no:cacheprovider --timeout=900 --continue-on-collection-errors",
                   source_commits=[], add_only=True),
        engines=[dict(name="pysym", path="/verif/pysym", serves_properties=sorted(CLAIMED),
                      kind_free_text="symbolic interpreter over the repository's own Python ASTs; z3 decides branch feasibility and assertions")],
        checks=checks,
        notes="Exit codes of every check: 0 held within bounds, 1 VIOLATION (natively replayed), 2 INCONCLUSIVE, 3 HARNESS-ERROR. See DESIGN.md.",
        not_applicable=na,
    )
    json.dump(man, open(os.path.join(ROOT, "MANIFEST.json"), "w"), indent=1)
    try:
        import jsonschema
        jsonschema.validate(man, json.load(open("/root/.vp/MANIFEST.schema.json")))
        print("MANIFEST.json valid;", len(checks), "checks,", len(na), "not_applicable")
    except ImportError:
        print("written (jsonschema not available)")


if __name__ == "__main__":
    main()
