"""Regex on symbolic char-vector strings: alphabet partition + the real `re` engine on representatives.

The pattern is parsed with re._parser; its literals, ranges and categories induce a finite partition
of the alphabet. Each symbolic character is forked into its class; the real engine runs on a string
of class representatives; group spans are mapped back onto the symbolic characters. Exact for
patterns without back-references and without IGNORECASE (others -> Unsupported).
"""
import re
import re._constants as sc
import re._parser as sp

import z3

from .values import LazyStr, SymStr, Unsupported, chars, mkstr, zbool

MAXC = 0x10FFFF
_cat_cache = {}
PatternType = type(re.compile(""))


def category_ranges(cat):
    if cat in _cat_cache:
        return _cat_cache[cat]
    pat = {sc.CATEGORY_DIGIT: r"\d", sc.CATEGORY_SPACE: r"\s", sc.CATEGORY_WORD: r"\w",
           sc.CATEGORY_NOT_DIGIT: r"\D", sc.CATEGORY_NOT_SPACE: r"\S", sc.CATEGORY_NOT_WORD: r"\W"}[cat]
    rx = re.compile(pat)
    rs = []
    start = None
    for c in range(MAXC + 1):
        m = rx.match(chr(c)) is not None
        if m and start is None:
            start = c
        if not m and start is not None:
            rs.append((start, c - 1))
            start = None
    if start is not None:
        rs.append((start, MAXC))
    _cat_cache[cat] = rs
    return rs


def collect_sets(parsed, out):
    for op, av in parsed:
        if op is sc.LITERAL or op is sc.NOT_LITERAL:
            out.append([(av, av)])
        elif op is sc.ANY:
            out.append([(10, 10)])
        elif op is sc.IN:
            for o2, a2 in av:
                if o2 is sc.LITERAL:
                    out.append([(a2, a2)])
                elif o2 is sc.RANGE:
                    out.append([a2])
                elif o2 is sc.CATEGORY:
                    out.append(category_ranges(a2))
                elif o2 is sc.NEGATE:
                    pass
                else:
                    raise Unsupported("regex IN " + str(o2))
        elif op in (sc.MAX_REPEAT, sc.MIN_REPEAT, sc.POSSESSIVE_REPEAT):
            collect_sets(av[2], out)
        elif op is sc.SUBPATTERN:
            collect_sets(av[3], out)
        elif op is sc.BRANCH:
            for p in av[1]:
                collect_sets(p, out)
        elif op in (sc.ASSERT, sc.ASSERT_NOT):
            collect_sets(av[1], out)
        elif op is sc.AT:
            if av in (sc.AT_BOUNDARY, sc.AT_NON_BOUNDARY):
                out.append(category_ranges(sc.CATEGORY_WORD))
            if av in (sc.AT_BEGINNING_LINE, sc.AT_END_LINE, sc.AT_END):
                out.append([(10, 10)])
        elif op is sc.CATEGORY:
            out.append(category_ranges(av))
        elif op is sc.ATOMIC_GROUP:
            collect_sets(av, out)
        else:
            raise Unsupported("regex op " + str(op))


_part_cache = {}


def partition(pattern):
    key = (pattern.pattern, pattern.flags)
    if key in _part_cache:
        return _part_cache[key]
    if pattern.flags & re.IGNORECASE:
        raise Unsupported("regex IGNORECASE")
    sets = []
    collect_sets(sp.parse(pattern.pattern, pattern.flags), sets)
    bounds = {0, MAXC + 1, 0xD800, 0xE000}
    for s in sets:
        for lo, hi in s:
            bounds.add(lo)
            bounds.add(hi + 1)
    bl = sorted(bounds)
    classes = {}
    for lo, nxt in zip(bl, bl[1:]):
        sig = tuple(any(a <= lo <= b for a, b in s) for s in sets) + (0xD800 <= lo <= 0xDFFF,)
        classes.setdefault(sig, []).append((lo, nxt - 1))
    res = []
    for sig, ivs in classes.items():
        res.append((ivs[0][0], ivs))
    # classes with few intervals first (cheaper decisions)
    res.sort(key=lambda x: len(x[1]))
    _part_cache[key] = res
    return res


class SymMatch:
    def __init__(self, s, m):
        self.s, self.m = s, m
        self.re = m.re
        self.lastindex = m.lastindex

    def _sub(self, a, b):
        return mkstr(chars(self.s)[a:b])

    def group(self, *idx):
        if not idx:
            idx = (0,)
        out = []
        for i in idx:
            a, b = self.m.span(i)
            out.append(None if a < 0 else self._sub(a, b))
        return out[0] if len(out) == 1 else tuple(out)

    def __getitem__(self, i):
        return self.group(i)

    def groups(self, default=None):
        return tuple(self.group(i + 1) if self.m.span(i + 1)[0] >= 0 else default for i in range(self.m.re.groups))

    def groupdict(self, default=None):
        return {k: (self.group(v) if self.m.span(v)[0] >= 0 else default) for k, v in self.m.re.groupindex.items()}

    def span(self, i=0):
        return self.m.span(i)

    def start(self, i=0):
        return self.m.start(i)

    def end(self, i=0):
        return self.m.end(i)


def classify(eng, pattern, s):
    """fork each symbolic char into an alphabet class; return the representative concrete string"""
    parts = partition(pattern)
    rep = []
    for c in chars(s):
        if isinstance(c, int):
            rep.append(chr(c))
            continue

        def inset(ivs):
            r = False
            for lo, hi in ivs:
                r = eng.or_(r, eng.and_(eng.cmp("GtE", c, lo), eng.cmp("LtE", c, hi)) if lo != hi else eng.cmp("Eq", c, lo))
            return r
        for r, ivs in parts[:-1]:
            if eng.truth(inset(ivs)):
                rep.append(chr(r))
                break
        else:
            r, ivs = parts[-1]
            rep.append(chr(r))
    return "".join(rep)


def sym_apply(eng, pattern, how, s, *rest):
    if isinstance(s, LazyStr):
        s = eng.force_str(s)
    if not isinstance(s, SymStr):
        return getattr(pattern, how)(s, *rest)
    if rest:
        raise Unsupported("regex pos/endpos with symbolic string")
    rep = classify(eng, pattern, s)
    if how in ("match", "search", "fullmatch"):
        m = getattr(pattern, how)(rep)
        return None if m is None else SymMatch(s, m)
    if how == "findall":
        out = []
        for m in pattern.finditer(rep):
            sm = SymMatch(s, m)
            g = pattern.groups
            out.append(sm.group(0) if g == 0 else (sm.group(1) if g == 1 else sm.groups("")))
        return out
    if how == "finditer":
        return [SymMatch(s, m) for m in pattern.finditer(rep)]
    if how == "split":
        if pattern.groups:
            raise Unsupported("re.split with groups")
        out, i = [], 0
        for m in pattern.finditer(rep):
            if m.end() == m.start():
                raise Unsupported("re.split empty match")
            out.append(mkstr(chars(s)[i:m.start()]))
            i = m.end()
        out.append(mkstr(chars(s)[i:]))
        return out
    raise Unsupported("regex method " + how)


def sym_sub(eng, pattern, repl, s, count=0):
    if isinstance(s, LazyStr):
        s = eng.force_str(s)
    if isinstance(repl, LazyStr):
        repl = eng.force_str(repl)
    if not isinstance(s, SymStr) and not isinstance(repl, SymStr):
        if callable(repl) and not isinstance(repl, str):
            out, i, n = [], 0, 0
            for m in pattern.finditer(s):
                out.append(s[i:m.start()])
                out.append(eng.call(repl, [m], {}))
                i = m.end()
                n += 1
                if count and n >= count:
                    break
            out.append(s[i:])
            return eng.concat_str(out)
        return pattern.sub(repl, s, count)
    if not isinstance(s, SymStr):
        rep = s
    else:
        rep = classify(eng, pattern, s)
    cs = chars(s)
    out, i, n = [], 0, 0
    for m in pattern.finditer(rep):
        out.extend(cs[i:m.start()])
        if isinstance(repl, (str, SymStr)):
            if isinstance(repl, str) and "\\" in repl:
                # template with group references
                tmpl = sp.parse_template(repl, pattern)
                out.extend(_expand_template(cs, m, tmpl, repl, pattern))
            else:
                out.extend(chars(repl))
        else:
            r = eng.call(repl, [SymMatch(s, m) if isinstance(s, SymStr) else m], {})
            if isinstance(r, LazyStr):
                r = eng.force_str(r)
            out.extend(chars(r))
        i = m.end()
        n += 1
        if count and n >= count:
            break
    out.extend(cs[i:])
    return mkstr(out)


def _expand_template(cs, m, tmpl, repl, pattern):
    # python 3.12: parse_template returns list of literals / group indexes
    out = []
    try:
        items = tmpl
        for it in items:
            if isinstance(it, int):
                a, b = m.span(it)
                if a >= 0:
                    out.extend(cs[a:b])
            elif isinstance(it, str):
                out.extend(ord(c) for c in it)
            elif it is None:
                pass
            else:
                raise Unsupported("regex template item")
        return out
    except TypeError:
        raise Unsupported("regex template")


def install(eng):
    from .engine import Engine

    def pat_hook(e, obj, name):
        if name in ("match", "search", "fullmatch", "findall", "finditer", "split"):
            def f(eng_, s, *rest, _o=obj, _n=name):
                return sym_apply(eng_, _o, _n, s, *rest)
            return _Model(f)
        if name == "sub":
            def g(eng_, repl, s, count=0, _o=obj):
                return sym_sub(eng_, _o, repl, s, count)
            return _Model(g)
        return NotImplemented
    Engine.getattr_hooks[PatternType] = pat_hook

    def mk(name):
        def f(eng_, pat, s, flags=0):
            p = pat if isinstance(pat, PatternType) else re.compile(pat, flags)
            return sym_apply(eng_, p, name, s)
        return f
    for name in ("match", "search", "fullmatch", "findall", "finditer", "split"):
        eng.models[getattr(re, name)] = mk(name)

    def m_sub(eng_, pat, repl, s, count=0, flags=0):
        p = pat if isinstance(pat, PatternType) else re.compile(pat, flags)
        return sym_sub(eng_, p, repl, s, count)
    eng.models[re.sub] = m_sub


class _Model:
    """callable recognised by Engine.call as a model"""
    _is_model = True

    def __init__(self, f):
        self.f = f

    def __call__(self, eng, *a, **k):
        return self.f(eng, *a, **k)
