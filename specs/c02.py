"""C02 - re-saving an unmodified document preserves what the library reads: per-record fix-point
decode -> encode -> decode, and a second cycle changes nothing."""
from struct import pack, unpack

from numbers_parser.cell import Cell, _pack_decimal128, _unpack_decimal128
from numbers_parser.constants import CURRENCY_CELL_TYPE
from numbers_parser.generated import TSTArchives_pb2 as TSTArchives

from pysym.values import as_bytes_list, mkbytes
from pysym.api import BoolDom, BVDom, BytesDom, Cases, Harness, IntDom, assume, cover
from specs.c04 import FIELDS, NBYTES, OPTIONAL

ENCODER_BITS = 0x1 | 0x2 | 0x4 | 0x8 | 0x10 | 0x20 | 0x40 | 0x200 | 0x400 | 0x1000 | 0x2000 | 0x4000 | 0x8000 | 0x10000 | 0x20000 | 0x40000
PAYLOAD = {TSTArchives.genericCellType: 0, TSTArchives.numberCellType: 1, TSTArchives.textCellType: 8,
           TSTArchives.dateCellType: 4, TSTArchives.boolCellType: 2, TSTArchives.durationCellType: 2,
           TSTArchives.automaticCellType: 0x10, CURRENCY_CELL_TYPE: 1}


class StubMerge:
    def get(self, rc):
        return None


class StubModel:
    def merge_cells(self, table_id):
        return StubMerge()

    def table_string(self, table_id, key):
        return ("str", key)

    def table_string_key(self, table_id, value):
        return value[1]          # the same text gets the same key (lookup-list contract: C06/H06a)

    def table_rich_text(self, table_id, key):
        return {"text": ("rich", key), "bullets": [], "hyperlinks": [], "bulleted": False}


def h02_fixpoint(buffer, cell_type, max_fields, touch, secs):
    buffer = bytes([5, cell_type]) + buffer[2:]
    if cell_type in (TSTArchives.dateCellType, TSTArchives.durationCellType):
        # dates and durations: whole seconds (sub-second payloads are outside the claim)
        buffer = buffer[:12] + pack("<d", float(secs)) + buffer[20:]
    flags = unpack("<i", buffer[8:12])[0]
    assume(flags & ~ENCODER_BITS == 0)                       # only fields the writer knows (others are warned about)
    assume(flags & 0xF == PAYLOAD[cell_type] & 0xF)          # payload fields are exactly those of the cell kind
    if cell_type == TSTArchives.automaticCellType:
        assume(flags & 0x10 != 0)
    cnt = 0
    for i in range(4, 19):
        cnt += (flags >> i) & 1
    assume(cnt <= max_fields)
    if cell_type == TSTArchives.boolCellType:
        dbl = unpack("<d", buffer[12:20])[0]
        assume(dbl == dbl and -1.0e9 < dbl < 1.0e9)
    model = StubModel()
    d1 = Cell._from_storage(7, 3, 4, buffer, model)
    if touch:
        # read-only accessors must not change what is written
        _ = d1.is_formula
        _ = d1.value
        _ = d1.is_bulleted
    b2 = d1._to_buffer()
    d2 = Cell._from_storage(7, 3, 4, b2, model)
    assert type(d2) is type(d1)
    assert d2._type == d1._type
    for name in FIELDS.values():
        if name == "_string_id":
            continue
        assert getattr(d2, name) == getattr(d1, name)
    assert d2._string_id == d1._string_id
    if cell_type in (TSTArchives.numberCellType, CURRENCY_CELL_TYPE):
        assert d2._d128 == d1._d128
    elif cell_type in (TSTArchives.boolCellType, TSTArchives.dateCellType, TSTArchives.durationCellType):
        assert d2.value == d1.value
    elif cell_type in (TSTArchives.textCellType, TSTArchives.automaticCellType):
        assert d2.value == d1.value
    # a second cycle changes nothing further
    assert d2._to_buffer() == b2


CELL_TYPES = sorted(PAYLOAD)
HARNESSES = [
    Harness("H02-fix", h02_fixpoint,
            lambda tier: dict(buffer=BytesDom(NBYTES, fixed={0: 5, 11: 0}), cell_type=Cases(CELL_TYPES),
                              max_fields=Cases([2 if tier == "quick" else 5]), touch=Cases([False, True]), secs=IntDom(-10 ** 9, 10 ** 9)),
            bounds="116 symbolic record bytes; 8 storable kinds; flags = the kind's payload field plus any <= 2 (quick) / <= 5 "
                   "(thorough) of the 13 optional id fields the writer knows; with and without read-only accessors touched",
            outside=["whole documents: sheet/table order, formula text, bullets, merge maps, IWA copy-back (protobuf/zip I/O)",
                     "records carrying fields the writer does not know (0x80, 0x100, 0x800, 0x80000, 0x100000): re-save drops them",
                     "date/duration payload bytes: whole re-encode of non-integral doubles"],
            stubs=["_unpack_decimal128/_pack_decimal128 as mutually inverse uninterpreted functions on the 16 payload bytes "
                   "(value-level exactness is C01/H01-dec)", "string table: same text -> same key"],
            models={_unpack_decimal128: lambda eng, buf: ("d128", mkbytes(list(as_bytes_list(buf)))),
                    _pack_decimal128: lambda eng, v: mkbytes(list(as_bytes_list(v[1])), True)}),
]
# "full re-encode of every table on save" (recalculate_table_data, recalculate_row_info) is part of C02's mechanism:
# the tile-partition and row-record harnesses are shared with C07
from specs import c07 as _c07   # noqa: E402

HARNESSES += [h for h in _c07.HARNESSES if h.name in ("H07a", "H07b")]
# "a second save/open cycle changes nothing further": the string list reset / re-keying over two consecutive saves is
# shared with C06
from specs import c06 as _c06   # noqa: E402

HARNESSES += [h for h in _c06.HARNESSES if h.name in ("H06a-rekey", "H06a-two-saves", "H06a-texts")]
# a re-save writes every date / duration again from the value in memory: the sub-second write/read harnesses are shared
# with C01 (H02-fix decides whole records but treats a date as "epoch + the stored double" without taking it apart)
from specs import c01 as _c01   # noqa: E402

HARNESSES += [h for h in _c01.HARNESSES if h.name in ("H01-date-us", "H01-dur-us")]
# a re-save reads every row before it writes it: the row-mapping harness is shared with C06
from specs import c06 as _c06b   # noqa: E402

HARNESSES += [h for h in _c06b.HARNESSES if h.name == "H06c"]
PROPERTY = "C02"
