"""C12 - merged regions are reported consistently (in memory; merge-map codec)."""
from collections import defaultdict

from numbers_parser.cell import MergedCell
from numbers_parser.constants import OwnerKind
from numbers_parser.constants import MAX_COL_COUNT, MAX_ROW_COUNT
from numbers_parser.generated import TSTArchives_pb2 as TSTArchives
from numbers_parser.model import MergeCells, _NumbersModel
from numbers_parser.numbers_cache import Cacheable
from numbers_parser.xrefs import xl_range

from pysym.api import BVDom, BoolDom, Cases, Harness, IntDom, assume, concretize, cover
from specs.common import check_invariant, grid_values, make_table


def check_rect(t, R, C, r0, c0, r1, c1, before):
    anchor = t.cell(r0, c0)
    assert anchor.is_merged
    assert anchor.size == (r1 - r0 + 1, c1 - c0 + 1)
    assert anchor.value == before[r0][c0]
    for r in range(R):
        for c in range(C):
            cell = t.cell(r, c)
            inside = r0 <= r <= r1 and c0 <= c <= c1
            if inside and not (r == r0 and c == c0):
                assert isinstance(cell, MergedCell)
                assert cell.value is None
                assert not cell.is_merged
                assert cell.rect == (r0, c0, r1, c1)
                assert cell.merge_range == xl_range(r0, c0, r1, c1)
            elif not inside:
                assert not isinstance(cell, MergedCell)
                assert cell.value == before[r][c]
                assert not cell.is_merged and cell.size == (1, 1) and cell.rect is None
            assert cell.row == r and cell.col == c


def h12a_merge(R, C, r0, c0, r1, c1):
    t = make_table(R, C)
    before = grid_values(t)
    assume(0 <= r0 <= r1 < R and 0 <= c0 <= c1 < C)
    assume(not (r0 == r1 and c0 == c1))
    r0 = concretize(r0)
    r1 = concretize(r1)
    c0 = concretize(c0)
    c1 = concretize(c1)
    t.merge_cells(xl_range(r0, c0, r1, c1))
    check_rect(t, R, C, r0, c0, r1, c1, before)
    assert t.merge_ranges == [xl_range(r0, c0, r1, c1)]
    assert t.num_rows == R and t.num_cols == C


def h12e_sequence(r0, c0, r1, c1, s0, d0, s1, d1, read_first):
    """merges made one after the other on an open table, the list of merge ranges read in between: every read lists
    exactly the rectangles merged so far"""
    R = 3
    C = 3
    t = make_table(R, C)
    assume(0 <= r0 <= r1 < R and 0 <= c0 <= c1 < C and not (r0 == r1 and c0 == c1))
    assume(0 <= s0 <= s1 < R and 0 <= d0 <= d1 < C and not (s0 == s1 and d0 == d1))
    assume(r1 < s0 or s1 < r0 or c1 < d0 or d1 < c0)        # disjoint
    r0, r1, c0, c1 = concretize(r0), concretize(r1), concretize(c0), concretize(c1)
    s0, s1, d0, d1 = concretize(s0), concretize(s1), concretize(d0), concretize(d1)
    a = xl_range(r0, c0, r1, c1)
    b = xl_range(s0, d0, s1, d1)
    if read_first:
        assert t.merge_ranges == []
    t.merge_cells(a)
    assert t.merge_ranges == [a]
    t.merge_cells(b)
    assert t.merge_ranges == sorted([a, b])
    assert t.merge_ranges == sorted([a, b])


def h12a_list(r0, c0, r1, c1, s0, d0, s1, d1):
    """two disjoint rectangles given as a list on a 3x3 table"""
    R = 3
    C = 3
    t = make_table(R, C)
    assume(0 <= r0 <= r1 < R and 0 <= c0 <= c1 < C and not (r0 == r1 and c0 == c1))
    assume(0 <= s0 <= s1 < R and 0 <= d0 <= d1 < C and not (s0 == s1 and d0 == d1))
    assume(r1 < s0 or s1 < r0 or c1 < d0 or d1 < c0)        # disjoint
    r0 = concretize(r0)
    r1 = concretize(r1)
    c0 = concretize(c0)
    c1 = concretize(c1)
    s0 = concretize(s0)
    s1 = concretize(s1)
    d0 = concretize(d0)
    d1 = concretize(d1)
    a = xl_range(r0, c0, r1, c1)
    b = xl_range(s0, d0, s1, d1)
    t.merge_cells([a, b])
    assert t.merge_ranges == sorted([a, b])
    for r in range(R):
        for c in range(C):
            cell = t.cell(r, c)
            in_a = r0 <= r <= r1 and c0 <= c <= c1
            in_b = s0 <= r <= s1 and d0 <= c <= d1
            if (r == r0 and c == c0) or (r == s0 and c == d0):
                assert cell.is_merged
            elif in_a:
                assert isinstance(cell, MergedCell) and cell.rect == (r0, c0, r1, c1)
            elif in_b:
                assert isinstance(cell, MergedCell) and cell.rect == (s0, d0, s1, d1)
            else:
                assert not isinstance(cell, MergedCell) and not cell.is_merged


def h12c_insert_after_merge(r0, r1, start, at_end):
    """one row insertion before or after a merged rectangle: anchor, placeholders and the merge map that will be
    saved all describe the (moved) rectangle"""
    R = 3
    C = 2
    c0 = 0
    c1 = 1
    t = make_table(R, C)
    assume(0 <= r0 <= r1 < R)
    r0 = concretize(r0)
    r1 = concretize(r1)
    t.merge_cells(xl_range(r0, c0, r1, c1))
    assume(at_end or 0 <= start < R)
    assume(at_end or start <= r0 or start > r1)        # insertion strictly inside the rectangle: not specified
    t.add_row(1, None if at_end else start)
    d = 0 if (at_end or start > r1) else 1
    m0 = r0 + d
    m1 = r1 + d
    assert t.merge_ranges == [xl_range(m0, c0, m1, c1)]
    for r in range(R + 1):
        for c in range(C):
            cell = t.cell(r, c)
            inside = m0 <= r <= m1
            if inside and not (r == m0 and c == c0):
                assert isinstance(cell, MergedCell)
                assert cell.rect == (m0, c0, m1, c1)
            elif inside:
                assert cell.is_merged and cell.size == (r1 - r0 + 1, 2)
            else:
                assert not isinstance(cell, MergedCell) and not cell.is_merged
    mm = t._model.merge_cells(7)
    assert mm.merge_cells() == [(m0, c0)]


def h12f_columns_after_merge(r0, r1, c1, count):
    """columns appended to the right of a merged rectangle: the rectangle stays what it was and the new cells are plain"""
    R = 3
    C = 3
    t = make_table(R, C)
    assume(0 <= r0 <= r1 < R and 0 <= c1 < C and not (r0 == r1 and c1 == 0))
    assume(1 <= count <= 2)
    r0, r1, c1, count = concretize(r0), concretize(r1), concretize(c1), concretize(count)
    a = xl_range(r0, 0, r1, c1)                      # the rectangle touches the left-most column(s)
    t.merge_cells(a)
    t.add_column(count)
    assert t.num_cols == C + count
    assert t.merge_ranges == [a]
    for r in range(R):
        for c in range(C + count):
            cell = t.cell(r, c)
            inside = r0 <= r <= r1 and c <= c1
            if inside and not (r == r0 and c == 0):
                assert isinstance(cell, MergedCell) and cell.rect == (r0, 0, r1, c1)
            elif inside:
                assert cell.is_merged and cell.size == (r1 - r0 + 1, c1 + 1)
            else:
                assert not isinstance(cell, MergedCell) and not cell.is_merged


# ---------------------------------------------------------------------------------- merge map codec
class Rec:
    def __init__(self, **kw):
        self.__dict__.update(kw)


class StubObjects:
    def __init__(self, table):
        self.store = {7: table}
        self.next = 100

    def __getitem__(self, k):
        return self.store[k]

    def create_object_from_dict(self, iwa, d, cls):
        self.next += 1
        obj = Rec(cell_range=[])
        self.store[self.next] = obj
        return self.next, obj


class StubNM(Cacheable):
    """self for the real _NumbersModel.recalculate_merged_cells / calculate_merge_cell_ranges"""
    merge_cells = _NumbersModel.merge_cells
    calculate_merge_cell_ranges = _NumbersModel.calculate_merge_cell_ranges
    recalculate_merged_cells = _NumbersModel.recalculate_merged_cells
    number_of_rows = _NumbersModel.number_of_rows            # real accessors: a table model has them
    number_of_columns = _NumbersModel.number_of_columns

    def __init__(self, nrows=0, ncols=0, owner=None):
        self.table = Rec(number_of_rows=nrows, number_of_columns=ncols,
                         base_data_store=Rec(merge_region_map=Rec(identifier=0)))
        self.objects = StubObjects(self.table)
        self._merge_cells = defaultdict(MergeCells)          # as in _NumbersModel.__init__
        self.owner = owner
        if owner is not None:
            # a Numbers-authored document: the merge is recorded as a MERGE_OWNER range dependency
            rng = Rec(top_left_row=owner[0], top_left_column=owner[1], bottom_right_row=owner[2], bottom_right_column=owner[3])
            rec = Rec(internal_range_reference=Rec(owner_id=1, range=rng))
            self.objects.store[50] = Rec(owner_kind=OwnerKind.MERGE_OWNER, range_dependencies=Rec(back_dependency=[rec]))
            self.objects.store[51] = Rec(owner_kind=OwnerKind.HAUNTED_OWNER, range_dependencies=Rec(back_dependency=[rec]))

    def owner_id_map(self):
        return {1: 77, 2: 78}

    def table_base_id(self, table_id):
        return 77

    def find_refs(self, name):
        assert name == "FormulaOwnerDependenciesArchive"
        return [51, 50] if self.owner is not None else []

    def set_reference(self, obj, ref_id):
        obj.identifier = ref_id


def _u32(eng, **kw):
    from pysym.values import is_sym
    v = kw.get("packedData")
    if v is not None and is_sym(v):
        if eng.truth(eng.or_(eng.cmp("Lt", v, 0), eng.cmp("Gt", v, 2 ** 32 - 1))):
            raise ValueError("Value out of range")
    elif v is not None and not 0 <= v <= 2 ** 32 - 1:
        raise ValueError("Value out of range")
    return Rec(**kw)


def h12b_codec(r0, c0, nr, nc, slack_r, slack_c):
    """decode(encode(merge)) is the same rectangle, within the documented table limits"""
    assume(0 <= r0 and 0 <= c0 and 1 <= nr <= 3 and 1 <= nc <= 3 and not (nr == 1 and nc == 1))
    assume(r0 + nr <= MAX_ROW_COUNT and c0 + nc <= MAX_COL_COUNT)
    # the table is exactly as large as the rectangle needs, or one row / column larger
    w = StubNM(r0 + nr + (1 if slack_r else 0), c0 + nc + (1 if slack_c else 0))
    w._merge_cells[7].add_anchor(r0, c0, (nr, nc))
    w.recalculate_merged_cells(7)
    # a fresh reader over the written objects
    rd = StubNM()
    rd.table = w.table
    rd.objects = w.objects
    m = rd.merge_cells(7)
    assert m.merge_cells() == [(r0, c0)]
    assert m.size((r0, c0)) == (nr, nc)
    ref = m.get((r0 + nr - 1, c0 + nc - 1))
    assert ref.rect == (r0, c0, r0 + nr - 1, c0 + nc - 1)


def h12d_owner_and_map(a, br, bc, bh, bw):
    """a document whose existing merge is recorded by a merge-owner dependency: a new merge added through the API is
    saved in the region map - after save and reopen both rectangles are merged"""
    ar, ac, ah, aw = a
    assume(0 <= br and 0 <= bc and 1 <= bh <= 2 and 1 <= bw <= 2 and not (bh == 1 and bw == 1))
    assume(ar + ah <= 4 and ac + aw <= 4 and br + bh <= 4 and bc + bw <= 4)
    assume(ar + ah <= br or br + bh <= ar or ac + aw <= bc or bc + bw <= ac)      # disjoint
    owner = (ar, ac, ar + ah - 1, ac + aw - 1)
    w = StubNM(4, 4, owner=owner)
    m = w.merge_cells(7)                                   # open
    assert m.merge_cells() == [(ar, ac)]
    # what Table.merge_cells records for a new rectangle
    for r in range(br, br + bh):
        for c in range(bc, bc + bw):
            m.add_reference(r, c, (br, bc, br + bh - 1, bc + bw - 1))
    m.add_anchor(br, bc, (bh, bw))
    w.recalculate_merged_cells(7)                          # save
    rd = StubNM(4, 4, owner=owner)                         # reopen: a fresh reader over the saved objects
    rd.table = w.table
    rd.objects = w.objects
    m2 = rd.merge_cells(7)
    got = m2.merge_cells()
    assert len(got) == 2 and (ar, ac) in got and (br, bc) in got
    assert m2.size((ar, ac)) == (ah, aw)
    assert m2.size((br, bc)) == (bh, bw)
    assert m2.get((br + bh - 1, bc + bw - 1)).rect == (br, bc, br + bh - 1, bc + bw - 1)
    assert m2.get((ar + ah - 1, ac + aw - 1)).rect == owner


HARNESSES = [
    Harness("H12d", h12d_owner_and_map, dict(a=Cases([(0, 0, 2, 2), (0, 1, 1, 2), (2, 2, 2, 2), (1, 0, 2, 1), (3, 0, 1, 2)]), br=BVDom(3), bc=BVDom(3), bh=Cases([1, 2]), bw=Cases([1, 2])),
            bounds="4x4 table; five owner-recorded rectangles (2x2, 1x2, 2x1 at corners/edges) x every disjoint "
                   "rectangle of size <= 2x2 (not 1x1) at any position, added before the save",
            stubs=["object store / dependency archives replaced by attribute bags (one MERGE_OWNER record, one record of another owner kind)"],
            models={TSTArchives.CellID: _u32, TSTArchives.TableSize: _u32, TSTArchives.CellRange: _u32}),
    Harness("H12a", h12a_merge, lambda tier: dict(R=Cases([2, 3] if tier == "quick" else [2, 3, 4]), C=Cases([1, 2, 3] if tier == "quick" else [1, 2, 3, 4]), r0=IntDom(), c0=IntDom(), r1=IntDom(), c1=IntDom()),
            bounds="every rectangle (not 1x1) inside tables of shape {2,3} x {1,2,3} (quick) / {2,3,4} x {1..4} (thorough); range text from the real xl_range",
            outside=["reload through real archives", "shapes beyond 3x3"]),
    Harness("H12a-list", h12a_list, dict(r0=IntDom(), c0=IntDom(), r1=IntDom(), c1=IntDom(), s0=IntDom(), d0=IntDom(), s1=IntDom(), d1=IntDom()),
            bounds="every pair of disjoint rectangles in a 3x3 table, given as a list"),
    Harness("H12e", h12e_sequence, dict(r0=IntDom(), c0=IntDom(), r1=IntDom(), c1=IntDom(), s0=IntDom(), d0=IntDom(), s1=IntDom(), d1=IntDom(),
                                        read_first=BoolDom()),
            bounds="every ordered pair of disjoint rectangles in a 3x3 table merged one after the other; merge_ranges read "
                   "before the first merge (or not), after the first and twice after the second"),
    Harness("H12f", h12f_columns_after_merge, dict(r0=IntDom(), r1=IntDom(), c1=IntDom(), count=IntDom()),
            bounds="3x3 table, every rectangle that starts in column A, 1..2 columns appended (no default value)"),
    Harness("H12c", h12c_insert_after_merge, dict(r0=IntDom(), r1=IntDom(), start=IntDom(), at_end=BoolDom()),
            bounds="3x2 table, full-width merged rectangle of any row span, one row inserted at any index before/after it or at the end"),
    Harness("H12b", h12b_codec, dict(r0=BVDom(20), c0=BVDom(10), nr=BVDom(2), nc=BVDom(2), slack_r=BoolDom(), slack_c=BoolDom()),
            bounds="origin anywhere within the documented limits (rows < 1 000 000, cols < 1000), size 1..3 x 1..3; rectangle touching the last row/column of the table or not",
            stubs=["object store / protobuf records replaced by attribute bags; CellID/TableSize packedData checked as uint32",
                   "owner-dependency (formula owner) merge records absent"],
            models={TSTArchives.CellID: _u32, TSTArchives.TableSize: _u32, TSTArchives.CellRange: _u32}),
]
PROPERTY = "C12"
