"""C15 (partial) - borders: a stroke drawn along a cell edge is reported by that cell and, as the opposite side, by the
neighbour sharing the edge; where strokes overlap the most recent one wins (open document)."""
from numbers_parser.cell import RGB, Border
from numbers_parser.model import _NumbersModel

from pysym.api import BoolDom, BVDom, Cases, Harness, IntDom, StrDom, assume, concretize, cover
from specs.common import StubModel, make_table

OPP = {"top": "bottom", "bottom": "top", "left": "right", "right": "left"}
DELTA = {"top": (-1, 0), "bottom": (1, 0), "left": (0, -1), "right": (0, 1)}


class BorderModel(StubModel):
    set_cell_border = _NumbersModel.set_cell_border
    cell_for_stroke = _NumbersModel.cell_for_stroke

    def __init__(self):
        StubModel.__init__(self)
        self._table_data = {}
        self._row_heights = {7: {0: 20, 1: 20, 2: 20}}
        self._col_widths = {7: {0: 98, 1: 98, 2: 98}}
        self.max_order = 0
        self.strokes = []

    def extract_strokes(self, table_id):
        pass

    def add_stroke(self, table_id, row, col, side, border_value, length):
        """the order-stamp contract of the real add_stroke (its run patching is protobuf construction): every recorded
        stroke gets the next order number"""
        self.max_order += 1
        border_value._order = self.max_order
        self.strokes.append((row, col, side, length, border_value))


def table3():
    t = make_table(3, 3)
    m = BorderModel()
    m.nrows, m.ncols = 3, 3
    t._model = m
    for r in t._data:
        for c in r:
            c._model = m
    m._table_data[7] = t._data
    return t


def side_of(cell, side):
    return getattr(cell.border, side)


def h15a_one_stroke(row, col, side, length):
    t = table3()
    assume(0 <= row < 3 and 0 <= col < 3 and 1 <= length <= 2)
    horizontal = side in ("top", "bottom")
    assume((col if horizontal else row) + length <= 3)
    b = Border(2.0, RGB(255, 0, 0), "solid")
    t.set_cell_border(row, col, side, b, length)
    row = concretize(row)
    col = concretize(col)
    length = concretize(length)
    covered = [(row, col + i) if horizontal else (row + i, col) for i in range(length)]
    dr, dc = DELTA[side]
    for r in range(3):
        for c in range(3):
            cell = t.cell(r, c)
            for s in ("top", "right", "bottom", "left"):
                want = None
                if (r, c) in covered and s == side:
                    want = b
                if (r - dr, c - dc) in covered and s == OPP[side]:
                    want = b
                assert side_of(cell, s) is want
    # sizes cached for the touched rows / columns are invalidated so that the border allowance is re-read
    assert b._order >= 1


def h15a_side_list(row, col, pair, length):
    """the same, with the sides given as a list: every side of the list is drawn over the whole length"""
    t = table3()
    assume(0 <= row < 3 and 0 <= col < 3 and 1 <= length <= 2)
    sides = list(pair)
    horizontal = sides[0] in ("top", "bottom")
    assume((col if horizontal else row) + length <= 3)
    b = Border(2.0, RGB(255, 0, 0), "solid")
    t.set_cell_border(row, col, sides, b, length)
    row = concretize(row)
    col = concretize(col)
    length = concretize(length)
    covered = [(row, col + i) if horizontal else (row + i, col) for i in range(length)]
    for r in range(3):
        for c in range(3):
            cell = t.cell(r, c)
            for s in ("top", "right", "bottom", "left"):
                want = None
                for side in sides:
                    dr, dc = DELTA[side]
                    if (r, c) in covered and s == side:
                        want = b
                    if (r - dr, c - dc) in covered and s == OPP[side]:
                        want = b
                assert side_of(cell, s) is want


def h15b_overlap(row, col, side, from_neighbour):
    """two strokes on the same edge, the second possibly addressed from the neighbouring cell: the later one is reported
    by both cells that share the edge"""
    t = table3()
    assume(0 <= row < 3 and 0 <= col < 3)
    dr, dc = DELTA[side]
    nr, nc = row + dr, col + dc
    first = Border(1.0, RGB(255, 0, 0), "solid")
    second = Border(3.0, RGB(0, 0, 255), "dashes")
    t.set_cell_border(row, col, side, first)
    if from_neighbour:
        assume(0 <= nr < 3 and 0 <= nc < 3)
        t.set_cell_border(nr, nc, OPP[side], second)
    else:
        t.set_cell_border(row, col, side, second)
    assert side_of(t.cell(row, col), side) is second
    if 0 <= nr < 3 and 0 <= nc < 3:
        assert side_of(t.cell(nr, nc), OPP[side]) is second
    assert second._order > first._order


def table43_merged():
    """4x3 table with B2:B3 merged (anchor (1,1), placeholder (2,1))"""
    t = make_table(4, 3)
    m = BorderModel()
    m.nrows, m.ncols = 4, 3
    t._model = m
    for r in t._data:
        for c in r:
            c._model = m
    m._table_data[7] = t._data
    t.merge_cells("B2:B3")
    return t


def h15c_merged_neighbour(row, col, side, older):
    """a stroke drawn on a plain cell's edge that borders a merged block is reported, as the opposite side, by the
    block's cell on that edge; a newer stroke wins over one drawn earlier from the block's side"""
    t = table43_merged()
    assume(0 <= row < 4 and 0 <= col < 3)
    assume(not (col == 1 and 1 <= row <= 2))            # the drawing cell is outside the block
    dr, dc = DELTA[side]
    nr, nc = row + dr, col + dc
    assume(nc == 1 and 1 <= nr <= 2)                    # ... and its edge borders the block
    first = Border(1.0, RGB(255, 0, 0), "solid")
    second = Border(3.0, RGB(0, 0, 255), "dashes")
    if older:
        t.set_cell_border(nr, nc, OPP[side], first)     # earlier stroke, addressed from the merged cell
    t.set_cell_border(row, col, side, second)
    assert side_of(t.cell(row, col), side) is second
    assert side_of(t.cell(nr, nc), OPP[side]) is second


# ------------------------------------------------------------------------------------------------ saved stroke layers
class Appearance:
    """the `stroke` sub-message of a run (width, colour, pattern): here simply the Border it was made from"""

    def __init__(self, border=None):
        self.border = border

    def CopyFrom(self, other):
        self.border = other.border


class Run:
    """a stroke run record (StrokeRunArchive seen as an attribute bag): origin, length, order, and the stroke it shows"""

    def __init__(self, origin=0, length=0, order=0, border=None):
        self.origin, self.length, self.order, self.stroke = origin, length, order, Appearance(border)

    @property
    def border(self):
        return self.stroke.border

    def CopyFrom(self, other):
        self.origin, self.length, self.order = other.origin, other.length, other.order
        self.stroke = Appearance(other.stroke.border)


def new_run(eng=None, *a, **kw):
    return Run()


class Ref:
    def __init__(self, identifier=0):
        self.identifier = identifier


def new_ref(eng=None, *a, **kw):
    return Ref(kw.get("identifier", 0))


class Rec:
    def __init__(self, **kw):
        self.__dict__.update(kw)


class LayerStore:
    def __init__(self):
        self.store = {}
        self.next = 100

    def __getitem__(self, k):
        return self.store[k]

    def create_object_from_dict(self, iwa, d, cls):
        self.next += 1
        obj = Rec(stroke_runs=[], **d)
        self.store[self.next] = obj
        return self.next, obj


class StrokeModel:
    """self for the real _NumbersModel.add_stroke (the run patching that decides what the SAVED file says)"""
    add_stroke = _NumbersModel.add_stroke

    def __init__(self):
        self.objects = LayerStore()
        self.sidecar = Rec(max_order=0, row_count=0, column_count=0, top_row_stroke_layers=[], right_column_stroke_layers=[],
                           bottom_row_stroke_layers=[], left_column_stroke_layers=[])
        self.objects.store[7] = Rec(stroke_sidecar=Ref(8), number_of_rows=8, number_of_columns=8)
        self.objects.store[8] = self.sidecar

    def create_stroke(self, origin, length, border_value):
        """contract of the real create_stroke (protobuf construction): a run record for [origin, origin+length) carrying the
        border and its order"""
        return Run(origin, length, border_value._order, border_value)


LINE = 6


def h15d_layers(cfg, o1, l1, o2, l2, o3, l3):
    """strokes drawn one after the other along the same line: in the stored runs, read back with 'highest order wins',
    every position shows the most recent stroke that covers it and nothing else - the saved file agrees with the open
    document"""
    side, three = cfg
    m = StrokeModel()
    strokes = [(o1, l1), (o2, l2)] + ([(o3, l3)] if three else [])
    borders = []
    for o, ln in strokes:
        assume(0 <= o and 1 <= ln and o + ln <= LINE)
        b = Border(1.0 + len(borders), RGB(255, 0, 0), "solid")
        borders.append(b)
        if side in ("top", "bottom"):
            m.add_stroke(7, 2, o, side, b, ln)
        else:
            m.add_stroke(7, o, 2, side, b, ln)
    layers = {"top": m.sidecar.top_row_stroke_layers, "bottom": m.sidecar.bottom_row_stroke_layers,
              "left": m.sidecar.left_column_stroke_layers, "right": m.sidecar.right_column_stroke_layers}[side]
    assert len(layers) == 1                                   # one layer per line
    layer = m.objects[layers[0].identifier]
    assert layer.row_column_index == 2
    for run in layer.stroke_runs:
        assert run.length >= 1 and 0 <= run.origin and run.origin + run.length <= LINE
        # the ordering stamp stored with a run is that of the stroke the run shows (precedence between the two layers
        # that share an edge is decided by these stamps)
        assert run.order == run.stroke.border._order
    for p in range(LINE):
        want = None
        for (o, ln), b in zip(strokes, borders):
            if o <= p < o + ln:
                want = b                                      # the most recent stroke covering p
        got = None
        best = -1
        for run in layer.stroke_runs:
            if run.origin <= p < run.origin + run.length and run.order > best:
                best = run.order
                got = run.border
        assert got is want
    for b in borders:
        assert b._order >= 1
    assert borders[1]._order > borders[0]._order


# ------------------------------------------------------------------------------------------------ Style objects
from numbers_parser.cell import Alignment, HorizontalJustification, Style, TextCell, VerticalJustification  # noqa: E402

TEXT_ATTRS = ["alignment", "bold", "first_indent", "font_color", "font_name", "font_size", "italic", "left_indent", "name",
              "right_indent", "strikethrough", "text_inset", "underline"]
CELL_ATTRS = ["alignment", "bg_color", "bg_image", "first_indent", "left_indent", "right_indent", "text_inset", "text_wrap"]
PUBLIC = ["alignment", "bg_image", "bg_color", "font_color", "font_size", "font_name", "bold", "italic", "strikethrough",
          "underline", "first_indent", "left_indent", "right_indent", "text_inset", "text_wrap", "name"]


def snapshot(st):
    return [st.__dict__[a] for a in PUBLIC]


def h15e_setattr(attr, flag, size, r, g, b):
    """assigning one attribute of a Style stores exactly that attribute (colours / alignment converted to their classes),
    leaves the other fifteen alone and marks the paragraph style and/or the cell style for rewriting on save - exactly
    the one(s) the attribute lives in"""
    assume(0 <= r <= 255 and 0 <= g <= 255 and 0 <= b <= 255 and 1 <= size <= 500)
    st = Style()
    st.__dict__["_update_text_style"] = False
    st.__dict__["_update_cell_style"] = False
    before = snapshot(st)
    value = {"alignment": ("center", "middle"), "bg_image": None, "bg_color": (r, g, b), "font_color": (r, g, b),
             "font_size": float(size), "font_name": "Courier", "bold": flag, "italic": flag, "strikethrough": flag,
             "underline": flag, "first_indent": float(size), "left_indent": float(size), "right_indent": float(size),
             "text_inset": float(size), "text_wrap": flag, "name": "My style"}[attr]
    setattr(st, attr, value)
    after = snapshot(st)
    for i in range(len(PUBLIC)):
        if PUBLIC[i] != attr:
            assert after[i] is before[i]
    got = st.__dict__[attr]
    if attr in ("bg_color", "font_color"):
        assert isinstance(got, RGB) and (got.r, got.g, got.b) == (r, g, b)
    elif attr == "alignment":
        assert isinstance(got, Alignment) and got == Alignment("center", "middle")
    else:
        assert got == value
    assert st._update_text_style == (attr in TEXT_ATTRS)
    assert st._update_cell_style == (attr in CELL_ATTRS)


class StyleSaver:
    """self for the real _NumbersModel.update_cell_styles; add_cell_style records what the archive was built from"""
    update_cell_styles = _NumbersModel.update_cell_styles

    def __init__(self):
        self.archives = {}
        self.next_id = 500

    def add_cell_style(self, style):
        self.next_id += 1
        self.archives[self.next_id] = cell_level(style)
        return self.next_id


def cell_level(style):
    c = style.bg_color
    return (None if c is None else (c.r, c.g, c.b), style.alignment.vertical, style.text_inset, style.text_wrap,
            style.first_indent, style.left_indent, style.right_indent)


def styled_cell(style):
    return Rec(_style=style, style=style)


def h15f_cell_style_archives(r1, g1, b, r2, g2, r3, wrap2, same_object, second_save, recolour):
    """save writes, for every styled cell, a cell-style archive built from THAT cell's current cell-level attributes -
    for any two styles in one table (colours, inset, wrap symbolic) and again on a second save after an attribute of
    an already saved style was changed"""
    for v in (r1, g1, b, r2, g2, r3):
        assume(0 <= v <= 255)
    s1 = Style(bg_color=RGB(r1, g1, b))
    s2 = s1 if same_object else Style(bg_color=RGB(r2, g2, b), text_wrap=wrap2)
    cells = [styled_cell(s1), styled_cell(s2), Rec(_style=None, style=None)]
    m = StyleSaver()
    m.update_cell_styles(7, [cells[:2], cells[2:]])
    for c in cells[:2]:
        assert m.archives[c._style._cell_style_obj_id] == cell_level(c._style)
    if second_save:
        if recolour:
            s1.bg_color = RGB(r3, g1, b)
        else:
            s1.text_wrap = not s1.text_wrap
        m.update_cell_styles(7, [cells[:2], cells[2:]])
        for c in cells[:2]:
            assert m.archives[c._style._cell_style_obj_id] == cell_level(c._style)


# ------------------------------------------------------------------------------------------------ style archives
import struct as _struct  # noqa: E402

from numbers_parser.constants import DOCUMENT_ID  # noqa: E402
from numbers_parser.numbers_cache import Cacheable  # noqa: E402

F32_FIELDS = {"r", "g", "b", "a", "font_size", "first_line_indent", "left_indent", "right_indent", "left", "top", "right", "bottom"}


def f32(x):
    """what a protobuf `float` field keeps of a Python float: the nearest binary32 value"""
    return _struct.unpack("<f", _struct.pack("<f", x))[0]


NEIGHBOUR = [False]          # set by H15g-f32 only: there the changed value is compared with the original and nothing else


def m_f32(eng, x):
    import z3
    from pysym.values import SymFloat, Unsupported, is_sym
    if not is_sym(x):
        return f32(float(x))
    if isinstance(x, SymFloat) and x.ival is not None and eng.must(eng.and_(eng.cmp("LtE", x.ival, 2 ** 24), eng.cmp("GtE", x.ival, -(2 ** 24)))):
        return x                                            # integers up to 2^24 are binary32 values
    if isinstance(x, SymFloat) and x.quot is not None:
        a, k = x.quot
        if isinstance(k, int) and k & (k - 1) == 0 and eng.must(eng.and_(eng.cmp("LtE", a, 2 ** 24), eng.cmp("GtE", a, -(2 ** 24)))):
            return x                                        # a / 2^j with |a| <= 2^24: a binary32 value
        if isinstance(k, int) and eng.must(eng.and_(eng.cmp("LtE", a, 255), eng.cmp("GtE", a, 0))):
            # a colour component c / 255: one path per value, the real arithmetic decides
            return f32(eng.concretize_int(a, "colour component") / k)
        if isinstance(k, int) and k > 0 and eng.must(eng.and_(eng.cmp("LtE", a, 2 ** 24), eng.cmp("GtE", a, -(2 ** 24)))):
            # a / (odd * 2^j): a binary32 value exactly when odd divides a (then it is (a / odd) / 2^j); otherwise the
            # field keeps a neighbouring value, which is a different number
            odd = k
            while odd % 2 == 0:
                odd //= 2
            if eng.truth(eng.cmp("Eq", eng.op("Mod", a, odd), 0)):
                return SymFloat(quot=(eng.op("FloorDiv", a, odd), k // odd))
            if not NEIGHBOUR[0]:
                raise Unsupported("binary32 rounding of a value binary32 cannot hold")
            return -1.0          # stands for the binary32 neighbour: some float that is not the (positive) value stored
    t = eng.to_fp(x if isinstance(x, SymFloat) else eng.as_float(x))
    return SymFloat(z3.fpFPToFP(z3.RNE(), z3.fpFPToFP(z3.RNE(), t, z3.Float32()), z3.Float64()))


class Msg:
    """a protobuf message as the style code uses it: nested fields by attribute, HasField = explicitly set, float
    fields keep binary32 values, unset sub-messages spring into existence when touched"""

    def __init__(self, d=None):
        object.__setattr__(self, "_set", {})
        for k, v in (d or {}).items():
            setattr(self, k, v)

    def __setattr__(self, k, v):
        if isinstance(v, dict):
            v = Msg(v)
        elif k in F32_FIELDS:
            v = f32(v)
        self._set[k] = v

    def __getattr__(self, k):
        if k.startswith("__"):
            raise AttributeError(k)
        st = object.__getattribute__(self, "_set")
        if k in st:
            return st[k]
        sub = Msg()
        object.__setattr__(self, "_auto_" + k, sub)
        return self.__dict__["_auto_" + k]

    def HasField(self, k):
        return k in self._set

    def MergeFrom(self, other):
        self._set["identifier"] = other.identifier


class StyleObjects:
    def __init__(self):
        self.store = {}
        self.next = 900

    def __getitem__(self, k):
        return self.store[k]

    def create_object_from_dict(self, iwa, d, cls):
        self.next += 1
        self.store[self.next] = Msg(d)
        return self.next, self.store[self.next]


class StyleTable:
    """DataLists side: a table's style keys -> references"""

    def __init__(self):
        self.refs = {}

    def lookup_value(self, table_id, key):
        return Rec(reference=Rec(identifier=self.refs[key]))


class StyleModel(Cacheable):
    """self for the real style writers and readers of _NumbersModel"""
    add_paragraph_style = _NumbersModel.add_paragraph_style
    update_paragraph_style = _NumbersModel.update_paragraph_style
    update_paragraph_styles = _NumbersModel.update_paragraph_styles
    add_cell_style = _NumbersModel.add_cell_style
    update_cell_styles = _NumbersModel.update_cell_styles
    table_style = _NumbersModel.table_style
    text_style_object_id = _NumbersModel.text_style_object_id
    cell_style_object_id = _NumbersModel.cell_style_object_id
    cell_text_style = _NumbersModel.cell_text_style
    cell_alignment = _NumbersModel.cell_alignment
    cell_bg_color = _NumbersModel.cell_bg_color
    char_property = _NumbersModel.char_property
    para_property = _NumbersModel.para_property
    cell_property = _NumbersModel.cell_property
    cell_is_bold = _NumbersModel.cell_is_bold
    cell_is_italic = _NumbersModel.cell_is_italic
    cell_is_underline = _NumbersModel.cell_is_underline
    cell_is_strikethrough = _NumbersModel.cell_is_strikethrough
    cell_style_name = _NumbersModel.cell_style_name
    cell_font_color = _NumbersModel.cell_font_color
    cell_font_size = _NumbersModel.cell_font_size
    cell_font_name = _NumbersModel.cell_font_name
    cell_first_indent = _NumbersModel.cell_first_indent
    cell_left_indent = _NumbersModel.cell_left_indent
    cell_right_indent = _NumbersModel.cell_right_indent
    cell_text_inset = _NumbersModel.cell_text_inset
    cell_text_wrap = _NumbersModel.cell_text_wrap

    def __init__(self):
        self.objects = StyleObjects()
        self.objects.store[DOCUMENT_ID] = Rec(stylesheet=Rec(identifier=5), theme=Rec(identifier=6))
        self.objects.store[5] = Rec(styles=[], identifier_to_style_map=[])
        self.objects.store[6] = Rec(super=Rec(presets=[]))
        self._table_styles = StyleTable()
        self._styles = {}

    @property
    def styles(self):
        return self._styles


G_STUBS = ["protobuf messages = attribute bags with HasField; `float` fields keep the nearest binary32 value (model m_f32: exact "
           "for integers and dyadic fractions up to 2^24, colour components c / 255 one path per value)",
           "object store create_object_from_dict builds the bag from the dict; stylesheet / theme lists are plain lists; "
           "find_extension returns the theme's preset list"]
G_OUT = ["values a binary32 field cannot hold (known finding KF-C15-float32)", "background images, font families other than one "
         "fixed family", "parent-style inheritance of unset fields", "the protobuf bytes"]


def fake_find_extension(obj, name):
    return obj.presets


def h15g_archives(fr, fg, fb, br, bg, bb, has_bg, size4, i1, i2, i3, inset, bold, italic, under, strike, wrap, hal, val, resave, which=None):
    """a style goes to the document through the real add_paragraph_style / add_cell_style (and update_paragraph_style
    on a second save) and is read back through the real Style.from_storage and the model's cell_* accessors: every
    attribute comes back equal - for values a binary32 field can hold"""
    if which == "font":
        br = 77
    elif which == "background":
        fr = 200
    for v in (fr, fg, fb, br, bg, bb):
        assume(0 <= v <= 255)
    assume(4 <= size4 <= 4000 and 0 <= i1 <= 4000 and 0 <= i2 <= 4000 and 0 <= i3 <= 4000 and 0 <= inset <= 4000)
    assume(0 <= hal <= 4 and 0 <= val <= 2)
    st = Style(name="My Style", font_name="Menlo", font_color=RGB(fr, fg, fb), bg_color=RGB(br, bg, bb) if has_bg else None,
               font_size=size4 / 4, first_indent=i1 / 8, left_indent=i2 / 8, right_indent=i3 / 8, text_inset=inset / 8,
               bold=bold, italic=italic, underline=under, strikethrough=strike, text_wrap=wrap,
               alignment=Alignment(HorizontalJustification(hal), VerticalJustification(val)))
    m = StyleModel()
    m._styles[st.name] = st
    m.update_paragraph_styles()                                  # first save: archives created
    cell = TextCell.__new__(TextCell)                            # a real cell: the accessors test isinstance(obj, Cell)
    cell._style = st
    cell._table_id = 7
    cell._model = m
    cell._text_style_id = None
    cell._cell_style_id = None
    cell.row = 3
    cell.col = 3
    m.update_cell_styles(7, [[cell]])
    if resave:
        # an attribute of each archive changed between two saves of the open document
        st.bold = not bold
        st.text_wrap = not wrap
        m.update_paragraph_styles()
        m.update_cell_styles(7, [[cell]])
    # what save records in the cell: keys of the two style references
    m._table_styles.refs = {1: st._text_style_obj_id, 2: st._cell_style_obj_id}
    cell._text_style_id = 1
    cell._cell_style_id = 2
    back = Style.from_storage(cell, m)
    for a in PUBLIC:
        assert back.__dict__[a] == st.__dict__[a]
    assert back._text_style_obj_id == st._text_style_obj_id and back._cell_style_obj_id == st._cell_style_obj_id


def h15g_f32(n, attr):
    """sizes given in tenths: what comes back after save and reopen is what was given"""
    assume(10 <= n <= 5000)
    NEIGHBOUR[0] = True
    x = n / 10
    kw = {attr: x}
    st = Style(name="My Style", font_name="Menlo", **kw)
    m = StyleModel()
    m._styles[st.name] = st
    m.update_paragraph_styles()
    cell = TextCell.__new__(TextCell)
    cell._style = st
    cell._table_id = 7
    cell._model = m
    cell._text_style_id = None
    cell._cell_style_id = None
    cell.row = 3
    cell.col = 3
    m.update_cell_styles(7, [[cell]])
    m._table_styles.refs = {1: st._text_style_obj_id, 2: st._cell_style_obj_id}
    cell._text_style_id = 1
    cell._cell_style_id = 2
    back = Style.from_storage(cell, m)
    assert back.__dict__[attr] == x


class StyleSource:
    """model accessors a style is read from: one distinct value per attribute"""

    def __init__(self, v):
        self.v = v

    def cell_alignment(self, cell):
        return self.v["alignment"]

    def cell_bg_color(self, cell):
        return self.v["bg_color"]

    def cell_font_color(self, cell):
        return self.v["font_color"]

    def cell_font_size(self, cell):
        return self.v["font_size"]

    def cell_font_name(self, cell):
        return self.v["font_name"]

    def cell_is_bold(self, cell):
        return self.v["bold"]

    def cell_is_italic(self, cell):
        return self.v["italic"]

    def cell_is_strikethrough(self, cell):
        return self.v["strikethrough"]

    def cell_is_underline(self, cell):
        return self.v["underline"]

    def cell_style_name(self, cell):
        return self.v["name"]

    def cell_first_indent(self, cell):
        return self.v["first_indent"]

    def cell_left_indent(self, cell):
        return self.v["left_indent"]

    def cell_right_indent(self, cell):
        return self.v["right_indent"]

    def cell_text_inset(self, cell):
        return self.v["text_inset"]

    def cell_text_wrap(self, cell):
        return self.v["text_wrap"]

    def text_style_object_id(self, cell):
        return self.v["_text_style_obj_id"]

    def cell_style_object_id(self, cell):
        return self.v["_cell_style_obj_id"]


def h15e_from_storage(bold, italic, strike, under, wrap, size, i1, i2, i3, inset, tid, cid):
    """a style read from a cell carries, attribute by attribute, what the model reports for that attribute - none of the
    four flags, three indents or two object ids ends up in another's place"""
    assume(1 <= size <= 500)
    v = {"alignment": Alignment("right", "bottom"), "bg_color": RGB(1, 2, 3), "font_color": RGB(4, 5, 6), "font_size": float(size),
         "font_name": "Menlo", "bold": bold, "italic": italic, "strikethrough": strike, "underline": under, "name": "S",
         "first_indent": float(i1), "left_indent": float(i2), "right_indent": float(i3), "text_inset": float(inset),
         "text_wrap": wrap, "_text_style_obj_id": tid, "_cell_style_obj_id": cid}
    st = Style.from_storage(Rec(_image_data=None), StyleSource(v))
    for k in v:
        got = st.__dict__[k]
        assert got == v[k]
    assert st.bg_image is None


def h15e_validation(kind):
    """wrongly typed attributes are refused with TypeError at construction"""
    bad = {"size": dict(font_size=12), "font": dict(font_name=3), "bold": dict(bold=1), "italic": dict(italic="yes"),
           "underline": dict(underline=None), "strikethrough": dict(strikethrough=0), "color": dict(font_color=(1, 2)),
           "bg": dict(bg_color="red"), "ok": dict(font_size=12.0, bold=True, bg_color=(1, 2, 3))}[kind]
    try:
        Style(**bad)
    except TypeError:
        assert kind != "ok"
        return
    assert kind == "ok"


SIDES = ["top", "right", "bottom", "left"]
OUT = ["style attribute round trip (paragraph / cell style archives: nested protobuf construction and lookup)",
       "background images, fonts", "re-derivation of cell borders from the stored runs on reopen beyond 'highest order wins' (protobuf I/O)",
       "strokes addressed to interior edges of merged blocks"]
HARNESSES = [
    Harness("H15a", h15a_one_stroke, dict(row=IntDom(), col=IntDom(), side=Cases(SIDES), length=IntDom()),
            bounds="3x3 table, stroke of length 1..2 from any cell on any side (position symbolic)",
            stubs=["model stub: add_stroke reduced to its order stamp; extract_strokes no-op; real set_cell_border / cell_for_stroke"],
            outside=OUT),
    Harness("H15a-list", h15a_side_list, dict(row=IntDom(), col=IntDom(), pair=Cases([("top", "bottom"), ("left", "right")]), length=IntDom()),
            bounds="3x3 table, both horizontal (or both vertical) sides of a run of 1..2 cells given as a list (position symbolic)",
            stubs=["as H15a"], outside=OUT),
    Harness("H15b", h15b_overlap, dict(row=IntDom(), col=IntDom(), side=Cases(SIDES), from_neighbour=BoolDom()),
            bounds="3x3 table, two strokes on the same edge from either of the two cells sharing it"),
]
HARNESSES.append(
    Harness("H15c", h15c_merged_neighbour, dict(row=IntDom(), col=IntDom(), side=Cases(SIDES), older=BoolDom()),
            bounds="4x3 table with a 2x1 merged block; stroke on any exterior edge of the block drawn from the plain neighbour, "
                   "with or without an earlier stroke drawn from the block's side"))
from numbers_parser.generated import TSPMessages_pb2 as TSPMessages  # noqa: E402
from numbers_parser.generated import TSTArchives_pb2 as TSTArchives  # noqa: E402

import numbers_parser.model as modelmod  # noqa: E402

HARNESSES += [
    Harness("H15e-setattr", h15e_setattr, dict(attr=Cases(PUBLIC), flag=BoolDom(), size=IntDom(), r=IntDom(), g=IntDom(), b=IntDom()),
            bounds="each of the 16 public Style attributes assigned once; colour components, sizes and flags symbolic",
            outside=["writing the style archives (nested protobuf construction)"]),
    Harness("H15f", h15f_cell_style_archives,
            dict(r1=IntDom(), g1=IntDom(), b=IntDom(), r2=IntDom(), g2=IntDom(), r3=IntDom(),
                 wrap2=BoolDom(), same_object=Cases([False, True]), second_save=Cases([False, True]), recolour=Cases([False, True])),
            bounds="two styled cells and one unstyled cell in one table; background colours with every red and green component "
                   "(0..255 each, both styles) and a shared blue component, wrap flag of the second style; the two cells sharing "
                   "one Style object or not; one save, or two saves with a colour / wrap change on the saved style in between",
            stubs=["add_cell_style replaced by a recorder of the cell-level attributes it was handed (archive construction is protobuf)",
                   "cells = attribute bags with _style / style"],
            outside=["background images", "alignment / indents / inset varied (kept at defaults)", "blue components that differ"]),
    Harness("H15g", h15g_archives,
            dict(fr=Cases([200]), fg=Cases([255]), fb=Cases([128]), br=Cases([77]), bg=Cases([7]), bb=Cases([200]), has_bg=Cases([False, True]),
                 size4=IntDom(), i1=IntDom(), i2=IntDom(), i3=IntDom(), inset=IntDom(), bold=BoolDom(), italic=BoolDom(),
                 under=BoolDom(), strike=BoolDom(), wrap=BoolDom(), hal=Cases([0, 1, 2, 3, 4]), val=Cases([0, 1, 2]), resave=Cases([False, True])),
            bounds="font size any multiple of 1/4 up to 1000, indents and inset any multiple of 1/8 up to 500 (all symbolic and "
                   "independent), the five flags, every horizontal x vertical alignment, with / without background colour, one save "
                   "or two saves with a flag of each archive flipped in between; colours fixed (H15g-colour)",
            stubs=G_STUBS, outside=G_OUT, models={f32: m_f32}, patches=[(modelmod, "find_extension", fake_find_extension)]),
    Harness("H15g-f32", h15g_f32,
            lambda tier: dict(n=IntDom(), attr=Cases(["font_size", "text_inset"] if tier == "quick" else
                                                      ["font_size", "first_indent", "left_indent", "right_indent", "text_inset"])),
            bounds="point-valued attributes (quick: font_size and text_inset, one per archive; thorough: all five) set to n / 10 "
                   "for every n in 10..5000 (symbolic)",
            stubs=G_STUBS, outside=G_OUT[1:], models={f32: m_f32}, patches=[(modelmod, "find_extension", fake_find_extension)]),
    Harness("H15g-colour", h15g_archives,
            dict(fr=IntDom(), fg=Cases([255]), fb=Cases([128]), br=IntDom(), bg=Cases([7]), bb=Cases([200]), has_bg=Cases([True]),
                 size4=Cases([44]), i1=Cases([0]), i2=Cases([8]), i3=Cases([16]), inset=Cases([32]), bold=Cases([True]), italic=Cases([False]),
                 under=Cases([False]), strike=Cases([True]), wrap=Cases([True]), hal=Cases([1]), val=Cases([2]), resave=Cases([False]),
                 which=Cases(["font", "background"])),
            bounds="the red component of the font colour (or of the background colour) takes every value 0..255 - c / 255 stored in a "
                   "binary32 field, read back as round(x * 255) - everything else fixed",
            stubs=G_STUBS, outside=G_OUT, models={f32: m_f32}, patches=[(modelmod, "find_extension", fake_find_extension)]),
    Harness("H15e-from_storage", h15e_from_storage,
            dict(bold=BoolDom(), italic=BoolDom(), strike=BoolDom(), under=BoolDom(), wrap=BoolDom(), size=IntDom(), i1=IntDom(0, 99),
                 i2=IntDom(0, 99), i3=IntDom(0, 99), inset=IntDom(0, 99), tid=IntDom(1, 2 ** 20), cid=IntDom(1, 2 ** 20)),
            bounds="flags, indents, inset, size and object ids symbolic and independent",
            stubs=["model accessors = a table of values, one per attribute"]),
    Harness("H15e-validation", h15e_validation,
            dict(kind=Cases(["size", "font", "bold", "italic", "underline", "strikethrough", "color", "bg", "ok"])),
            bounds="one wrongly typed attribute at a time (concrete)"),
]


class ModProxy:
    """a generated protobuf module with a few message constructors replaced by attribute bags"""

    def __init__(self, real, **over):
        self._real = real
        self.__dict__.update(over)

    def __getattr__(self, name):
        return getattr(self._real, name)


FAKE_TST = ModProxy(TSTArchives, StrokeLayerArchive=Rec(StrokeRunArchive=Run))
FAKE_TSP = ModProxy(TSPMessages, Reference=Ref)
HARNESSES.append(
    Harness("H15d", h15d_layers,
            lambda tier: dict(cfg=Cases([("top", False), ("top", True), ("left", False)] if tier == "quick" else
                                        [(sd, th) for sd in SIDES for th in (False, True)]),
                              o1=IntDom(), l1=IntDom(), o2=IntDom(), l2=IntDom(), o3=IntDom(), l3=IntDom()),
            bounds="2 or 3 strokes of every start and length along one line of 6 cells (symbolic); quick: top with 2 and 3 strokes, left "
                   "with 2; thorough: all four sides with 2 and 3 strokes",
            stubs=["stroke run / layer / sidecar records = attribute bags; create_stroke reduced to its contract (a run record with "
                   "origin, length, order and the border); object store stub"],
            patches=[(modelmod, "TSTArchives", FAKE_TST), (modelmod, "TSPMessages", FAKE_TSP)]))


# ------------------------------------------------------------------------------------------------ one stroke, written and read
F32_FIELDS.add("width")


class Ctor:
    """a protobuf message class whose instances are attribute bags (nested enums etc. come from the real class)"""

    def __init__(self, real):
        self._real = real

    def __call__(self, **kw):
        return Msg(kw)

    def __getattr__(self, name):
        return getattr(self._real, name)


class StrokeIO:
    """self for the real create_stroke (what save writes for a stroke) and stroke_type (what open reads)"""
    create_stroke = _NumbersModel.create_stroke
    stroke_type = _NumbersModel.stroke_type


def h15h_stroke_record(w4, red, style, origin, length, order):
    """a border written as a stroke run by the real create_stroke and read the way extract_strokes_in_layers reads it:
    width, colour, line style, extent and ordering stamp come back as given"""
    from numbers_parser.model import rgb
    assume(0 <= w4 <= 400 and 0 <= red <= 255 and 0 <= origin <= 999 and 1 <= length <= 1000 and 0 <= order <= 10 ** 6)
    b = Border(w4 / 4, RGB(red, 20, 30), style)
    b._order = order
    run = StrokeIO().create_stroke(origin, length, b)
    assert run.origin == origin and run.length == length and run.order == order
    back = Border(width=round(run.stroke.width, 2), color=rgb(run.stroke.color), style=StrokeIO().stroke_type(run), _order=run.order)
    assert back.width == b.width
    assert back.color == b.color
    assert back.style == b.style


FAKE_TSD_H = ModProxy(modelmod.TSDArchives, StrokePatternArchive=Ctor(modelmod.TSDArchives.StrokePatternArchive),
                      StrokeArchive=Ctor(modelmod.TSDArchives.StrokeArchive))
FAKE_TSP_H = ModProxy(TSPMessages, Color=Ctor(TSPMessages.Color))
FAKE_TST_H = ModProxy(TSTArchives, StrokeLayerArchive=Rec(StrokeRunArchive=Ctor(TSTArchives.StrokeLayerArchive.StrokeRunArchive)))
HARNESSES.append(
    Harness("H15h", h15h_stroke_record,
            dict(w4=IntDom(), red=IntDom(), style=Cases(["solid", "dashes", "dots", "none"]), origin=IntDom(), length=IntDom(), order=IntDom()),
            bounds="width any multiple of 1/4 up to 100, red component 0..255 (one path per value), the four line styles, origin "
                   "0..999, length 1..1000, ordering stamp up to 10^6 (symbolic)",
            stubs=["StrokePatternArchive / StrokeArchive / Color / StrokeRunArchive constructors = attribute bags; `float` fields "
                   "keep binary32 values (m_f32)"],
            outside=["widths binary32 cannot hold (read back rounded to 2 decimals)", "the protobuf bytes"],
            models={f32: m_f32},
            patches=[(modelmod, "TSDArchives", FAKE_TSD_H), (modelmod, "TSPMessages", FAKE_TSP_H), (modelmod, "TSTArchives", FAKE_TST_H)]))


# ------------------------------------------------------------------------------------------------ background image lookup
class ImageModel(Cacheable):
    def __init__(self, style_obj, datas, files):
        self.objects = ImageObjects({2: Rec(datas=datas), 60: style_obj}, files)
        self._images = {}

    def table_style(self, table_id, key):
        return self.objects[60]


class ImageObjects:
    def __init__(self, store, files):
        self.store = store
        self.file_store = files

    def __getitem__(self, k):
        return self.store[k]


def h15i_image(n1, n2, which, extra_dir):
    """a cell's background image is the stored file its style names - not another file whose name merely resembles it"""
    assume(n1 != n2)
    datas = [Rec(identifier=11, file_name=n1, preferred_file_name=n1), Rec(identifier=12, file_name=n2, preferred_file_name=n2)]
    files = {"Data/" + n1: b"first image", "Data/" + n2: b"second image"}
    if extra_dir:
        files = {"Index/" + n1: b"not an image", "Data/" + n1: b"first image", "Data/" + n2: b"second image"}
    image_id = 11 if which == 0 else 12
    style = Msg({"cell_properties": {"cell_fill": {"image": {"imagedata": {"identifier": image_id}}}}})
    cell = TextCell.__new__(TextCell)
    cell._table_id = 7
    cell._cell_style_id = 5
    cell._model = ImageModel(style, datas, files)
    got = cell._image_data
    assert got is not None
    data, name = got
    assert name == (n1 if which == 0 else n2)
    assert data == (b"first image" if which == 0 else b"second image")


HARNESSES.append(
    Harness("H15i", h15i_image,
            dict(n1=StrDom(2, [(97, 98)]), n2=StrDom(1, [(97, 98)]), which=Cases([0, 1]), extra_dir=BoolDom()),
            bounds="two stored images named by 2 and 1 symbolic characters over {a, b} (every suffix / prefix relation), either one "
                   "referenced by the cell's style, with or without a same-named file in another folder",
            stubs=["style archive and package data list = attribute bags; file store = dict"],
            outside=["image bytes, sha1 registration"]))
PROPERTY = "C15"
