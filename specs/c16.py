"""C16 - table geometry survives save and reopen: size fix-point of the real read/write pair; header count guards."""
from numbers_parser.cell import Cell, MergedCell
from numbers_parser.constants import MAX_HEADER_COUNT
from numbers_parser.generated import TSTArchives_pb2 as TSTArchives
from numbers_parser.model import _NumbersModel
from numbers_parser.numbers_cache import Cacheable

from pysym.api import BoolDom, BVDom, Cases, Harness, IntDom, assume, concretize, cover
from specs.common import StubModel, make_table


class Rec:
    def __init__(self, **kw):
        self.__dict__.update(kw)


class FakeCell:
    def __init__(self, w):
        b = Rec(width=w) if w else None
        self.border = Rec(top=b, bottom=None, left=b, right=None)


class FakeMerged(MergedCell):
    """a merged placeholder as recalculate_column_headers sees it (isinstance MergedCell); no borders of its own"""
    border = Rec(top=None, bottom=None, left=None, right=None)

    def __init__(self):
        pass


class SizeModel(Cacheable):
    """self for the real row_height / col_width / recalculate_row_headers / recalculate_column_headers"""
    row_height = _NumbersModel.row_height
    col_width = _NumbersModel.col_width
    recalculate_row_headers = _NumbersModel.recalculate_row_headers
    recalculate_column_headers = _NumbersModel.recalculate_column_headers
    number_of_columns = _NumbersModel.number_of_columns

    def __init__(self, row_headers, col_headers, data, default_h=20.0, default_w=98.0):
        table = Rec(default_row_height=default_h, default_column_width=default_w, number_of_columns=len(data[0]), number_of_rows=len(data),
                    base_data_store=Rec(rowHeaders=Rec(buckets=[Rec(identifier=30)]), columnHeaders=Rec(identifier=31)))
        self.objects = {7: table, 30: Rec(headers=row_headers), 31: Rec(headers=col_headers)}
        self._row_heights = {}
        self._col_widths = {}
        self._table_data = {7: data}


def header(eng=None, **kw):
    return Rec(**kw)


def h16a_sizes(h1, w1, border, query_first, set_h, new_h, cycles, nrows, merged_col, defaults):
    """stored row heights / column widths come back equal after 1..3 save/reopen cycles, whether or not they were queried
    before saving; a height set through the API is the one stored"""
    assume(1 <= h1 <= 10000 and 1 <= w1 <= 10000 and 1 <= new_h <= 10000)
    last = nrows - 1                      # the row with the custom height (beyond the first tile when nrows > 256)
    plain = [FakeCell(0.0), FakeCell(0.0)]
    data = [plain for _ in range(last)] + [[FakeCell(border), FakeCell(0.0)]]
    if merged_col == "row":
        # the row with the custom height is completely covered by a merge anchored in the row above: no cells of its own
        assume(border == 0.0 and nrows == 2)
        data = [plain for _ in range(last)] + [[FakeMerged(), FakeMerged()]]
    elif merged_col:
        # column 0 (the one with the custom width) is completely covered by a merge anchored in column 1: it has no
        # cells of its own
        assume(border == 0.0)
        data = [[FakeMerged(), FakeCell(0.0)] for _ in range(nrows)]
    rows = [Rec(index=r, numberOfCells=2, size=0.0, hidingState=0) for r in range(last)]
    rows.append(Rec(index=last, numberOfCells=2, size=float(h1), hidingState=0))
    cols = [Rec(index=0, numberOfCells=2, size=float(w1), hidingState=0), Rec(index=1, numberOfCells=2, size=0.0, hidingState=0)]
    default_h, default_w = defaults           # the table's own default row height / column width
    m = SizeModel(rows, cols, data, default_h, default_w)
    first_h = None
    if query_first:
        first_h = m.row_height(7, last)
    if set_h:
        m.row_height(7, last, new_h)
    want_h = new_h if set_h else (first_h if query_first else None)
    want_w = None
    for _ in range(cycles):
        m.recalculate_row_headers(7, data)
        m.recalculate_column_headers(7, data)
        # reopen: a fresh model over the written header buckets
        m = SizeModel(m.objects[30].headers, m.objects[31].headers, data, default_h, default_w)
        got_h = m.row_height(7, last)
        got_w = m.col_width(7, 0)
        if want_h is None:
            want_h = got_h          # never queried before: the first value seen after reopening is the reference
        if want_w is None:
            want_w = got_w
        assert got_h == want_h
        assert got_w == want_w
        assert m.row_height(7, 0) == round(default_h) and m.col_width(7, 1) == round(default_w)      # defaults stay defaults
        hs = m.objects[30].headers
        assert len(hs) == nrows
        for r in range(nrows):
            assert hs[r].index == r                                      # one header record per row, at its own index
        cs = m.objects[31].headers
        assert len(cs) == 2 and cs[0].index == 0 and cs[1].index == 1    # and one per column
    if border == 0.0:
        assert got_h == (new_h if set_h else h1)
        assert got_w == w1


def h16b_header_counts(n, R, C, rows):
    t = make_table(R, C)
    before = (t._model.hr, t._model.hc)
    try:
        if rows:
            t.num_header_rows = n
        else:
            t.num_header_cols = n
    except ValueError:
        assert n < 0 or n > (R if rows else C) or n > MAX_HEADER_COUNT
        assert (t._model.hr, t._model.hc) == before
        return
    assert 0 <= n <= MAX_HEADER_COUNT and n <= (R if rows else C)
    assert (t.num_header_rows if rows else t.num_header_cols) == n
    assert (t._model.hc if rows else t._model.hr) == (before[1] if rows else before[0])


HARNESSES = [
    Harness("H16a", h16a_sizes,
            dict(h1=BVDom(14), w1=BVDom(14), border=Cases([0.0, 1.0, 3.0]), query_first=BoolDom(), set_h=BoolDom(), new_h=BVDom(14),
                 cycles=Cases([1, 2, 3]), nrows=Cases([2, 258]), merged_col=Cases([False, True, "row"]),
                 defaults=Cases([(20.0, 98.0), (22.0, 80.0)])),
            bounds="stored height/width: every integer number of points 1..10000 (symbolic); border widths {0, 1, 3}; queried or "
                   "not before saving; height set through the API or not; 1..3 save/reopen cycles; the sized row is the last of 2 or of 258 rows (second tile); "
                   "the sized column has cells of its own or is completely covered by a merge; "
                   "table defaults equal to the library-wide constants (20 / 98) or not (22 / 80)",
            stubs=["object store and header records = attribute bags; Header constructor = attribute bag"],
            outside=["names, captions, visibility, coordinates (protobuf attribute pass-through and I/O)", "non-integral stored sizes"],
            models={TSTArchives.HeaderStorageBucket.Header: header}),
    Harness("H16b", h16b_header_counts, dict(n=IntDom(), R=Cases([1, 3, 7]), C=Cases([2, 6]), rows=Cases([True, False])),
            bounds="header count: every Python int; table shapes {1,3,7} x {2,6}"),
]
PROPERTY = "C16"
