"""Arithmetic / comparison semantics on symbolic values (mixin for Engine)."""
import ast
import operator
import time

import z3

from .values import (SymDT, SymTD, F64, LazyStr, Opaque, SymBool, SymBV, SymBytes, SymFloat, SymInt, SymStr, Unsupported,
                     as_bytes_list, bv_common, bv_const, chars, is_sym, mkbool, mkbv, mkbytes, mkint, mkstr, zbool,
                     zint)

PYOPS = {ast.Add: operator.add, ast.Sub: operator.sub, ast.Mult: operator.mul, ast.Div: operator.truediv,
         ast.FloorDiv: operator.floordiv, ast.Mod: operator.mod, ast.Pow: operator.pow, ast.BitAnd: operator.and_,
         ast.BitOr: operator.or_, ast.BitXor: operator.xor, ast.LShift: operator.lshift, ast.RShift: operator.rshift}
PYCMP = {ast.Eq: operator.eq, ast.NotEq: operator.ne, ast.Lt: operator.lt, ast.LtE: operator.le, ast.Gt: operator.gt,
         ast.GtE: operator.ge}
ZCMP = {ast.Eq: lambda x, y: x == y, ast.NotEq: lambda x, y: x != y, ast.Lt: lambda x, y: x < y,
        ast.LtE: lambda x, y: x <= y, ast.Gt: lambda x, y: x > y, ast.GtE: lambda x, y: x >= y}
FCMP = {ast.Eq: z3.fpEQ, ast.NotEq: z3.fpNEQ, ast.Lt: z3.fpLT, ast.LtE: z3.fpLEQ, ast.Gt: z3.fpGT, ast.GtE: z3.fpGEQ}

INTLIKE = (int, SymInt, SymBV, SymBool)
LEMMAS = {}
LEMMA_LOG = []


LEMMA_CACHE_FILE = None      # set by the driver: per-run file shared by the workers (never reused across runs)


def _load_lemma_cache():
    import json, os
    if LEMMA_CACHE_FILE and os.path.exists(LEMMA_CACHE_FILE):
        try:
            for line in open(LEMMA_CACHE_FILE):
                k, b, r = json.loads(line)
                LEMMAS.setdefault((k, b), r)
        except Exception:
            pass


def _store_lemma(key, r):
    import json
    if LEMMA_CACHE_FILE:
        with open(LEMMA_CACHE_FILE, "a") as f:
            f.write(json.dumps([key[0], key[1], r]) + "\n")


def _nonneg(v):
    return (isinstance(v, int) and v >= 0) or (isinstance(v, SymBV) and not v.signed)


class OpsMixin:
    # ---------------------------------------------------------------- helpers
    def op(self, name, a, b):
        return self.binop(getattr(ast, name)(), a, b)

    def cmp(self, name, a, b):
        return self.compare(getattr(ast, name)(), a, b)

    def neg(self, v):
        if isinstance(v, SymInt):
            return mkint(-v.t)
        if isinstance(v, SymBV):
            x = v.ext(v.w + 1)
            return mkbv(-x, True)
        if isinstance(v, SymBool):
            return mkint(-zint(v))
        if isinstance(v, SymTD):
            from . import dtmodels
            return dtmodels.neg(self, v)
        if isinstance(v, SymFloat):
            if v.ival is not None:
                return SymFloat(ival=self.neg(v.ival))
            if v.t is not None:
                return SymFloat(z3.fpNeg(v.t))
            raise Unsupported("neg of quotient float")
        return -v

    def must(self, cond):
        """True iff cond (a python bool / SymBool) holds on every continuation of this path."""
        if isinstance(cond, bool):
            return cond
        return self.check(z3.Not(zbool(cond))) == z3.unsat

    # ---------------------------------------------------------------- binop
    def binop(self, op, a, b):
        if type(a).__name__ == "SymBlob" or type(b).__name__ == "SymBlob":
            from . import blob
            if isinstance(op, ast.Add):
                return blob.concat(self, [a, b])
            raise Unsupported("blob operator")
        if isinstance(a, (SymDT, SymTD)) or isinstance(b, (SymDT, SymTD)):
            from . import dtmodels
            return dtmodels.binop(self, op, a, b)
        if isinstance(a, bool) and is_sym(b):
            a = int(a)
        if isinstance(b, bool) and is_sym(a):
            b = int(b)
        if isinstance(a, SymBool):
            a = mkint(zint(a))
        if isinstance(b, SymBool):
            b = mkint(zint(b))
        if isinstance(a, (SymStr, SymBytes, LazyStr)) or isinstance(b, (SymStr, SymBytes, LazyStr)):
            return self.seq_binop(op, a, b)
        if isinstance(a, SymFloat) or isinstance(b, SymFloat) or (
                (isinstance(a, float) or isinstance(b, float)) and (is_sym(a) or is_sym(b))):
            return self.float_binop(op, a, b)
        if isinstance(a, SymInt) or isinstance(b, SymInt):
            return self.int_binop(op, a, b)
        if isinstance(a, SymBV) or isinstance(b, SymBV):
            return self.bv_binop(op, a, b)
        if isinstance(a, (str, bytes, bytearray, list, tuple)) and is_sym(b) or \
                isinstance(b, (str, bytes, bytearray, list, tuple)) and is_sym(a):
            return self.seq_binop(op, a, b)
        f = PYOPS.get(type(op))
        if f is None:
            raise Unsupported("binop " + type(op).__name__)
        if isinstance(a, Opaque) or isinstance(b, Opaque):
            raise Unsupported("arithmetic on opaque value")
        return f(a, b)

    def bv_binop(self, op, a, b):
        t = type(op)
        if not isinstance(a, (int, SymBV)) or not isinstance(b, (int, SymBV)):
            raise Unsupported(f"bv binop mix {type(a).__name__} {type(b).__name__}")
        if t in (ast.LShift, ast.RShift):
            if not isinstance(b, int):
                b = self.concretize_int(b, "shift amount")
            if isinstance(a, int):
                return PYOPS[t](a, b)
            if t is ast.LShift:
                x = a.ext(a.w + b)
                return mkbv(x << b, a.signed)
            if b >= a.w:
                return mkbv(z3.If(a.t < 0, z3.BitVecVal(-1, 2), z3.BitVecVal(0, 2)), True) if a.signed else 0
            return mkbv((a.t >> b) if a.signed else z3.Extract(a.w - 1, b, a.t), a.signed)
        if t in (ast.BitAnd, ast.BitOr, ast.BitXor):
            x, y, w = bv_common(a, b)
            r = {ast.BitAnd: x & y, ast.BitOr: x | y, ast.BitXor: x ^ y}[t]
            nonneg = (t is ast.BitAnd and (_nonneg(a) or _nonneg(b))) or (t is not ast.BitAnd and _nonneg(a) and _nonneg(b))
            if nonneg:
                if t is ast.BitAnd:
                    # result fits in the narrower non-negative operand
                    ws = [v.bit_length() if isinstance(v, int) else v.w for v in (a, b) if _nonneg(v)]
                    k = max(1, min(ws))
                    return mkbv(z3.Extract(k - 1, 0, r), False)
                return mkbv(z3.Extract(w - 2, 0, r) if w > 1 else r, False)
            return mkbv(r, True)
        if t in (ast.Add, ast.Sub):
            x, y, w = bv_common(a, b, extra=1)
            return mkbv(x + y if t is ast.Add else x - y, True)
        if t is ast.Mult:
            if isinstance(a, int) or isinstance(b, int):
                k, v = (a, b) if isinstance(a, int) else (b, a)
                if k == 0:
                    return 0
                w = v.w + (0 if v.signed else 1) + abs(k).bit_length() + 1
                return mkbv(v.ext(w) * z3.BitVecVal(k, w), True)
            x, y, w = bv_common(a, b)
            x = z3.SignExt(w, x)
            y = z3.SignExt(w, y)
            return mkbv(x * y, True)
        if t in (ast.FloorDiv, ast.Mod) and isinstance(b, int) and b > 0:
            if isinstance(a, SymBV):
                if a.signed and not self.must(mkbool(a.t >= 0)):
                    # python floor semantics for negatives: go through Int
                    return self.int_binop(op, mkint(zint(a)), b)
                x, y, w = bv_common(a, b)
                r = mkbv(z3.UDiv(x, y) if t is ast.FloorDiv else z3.URem(x, y), True)
                return r
        if t in (ast.FloorDiv, ast.Mod):
            return self.int_binop(op, mkint(zint(a)) if isinstance(a, SymBV) else a,
                                  mkint(zint(b)) if isinstance(b, SymBV) else b)
        if t is ast.Div:
            return self.float_binop(op, a, b)
        if t is ast.Pow:
            if isinstance(b, SymBV):
                b = self.concretize_int(b, "pow exponent")
            if isinstance(a, SymBV):
                if not isinstance(b, int) or b < 0:
                    raise Unsupported("pow")
                r = 1
                for _ in range(b):
                    r = self.binop(ast.Mult(), r, a)
                return r
            return a ** b
        raise Unsupported("bv binop " + t.__name__)

    def int_binop(self, op, a, b):
        t = type(op)
        if not isinstance(a, INTLIKE) or not isinstance(b, INTLIKE):
            if t is ast.Mult and isinstance(a, (list, tuple, str)) or isinstance(b, (list, tuple, str)):
                return self.seq_binop(op, a, b)
            raise Unsupported(f"int binop {type(a).__name__} {type(b).__name__}")
        za, zb = zint(a), zint(b)
        if t is ast.Add:
            return mkint(za + zb)
        if t is ast.Sub:
            return mkint(za - zb)
        if t is ast.Mult:
            if not isinstance(a, int) and not isinstance(b, int):
                # nonlinear: concretise the one with the smaller range if possible
                b = self.concretize_int(b, "nonlinear multiplication")
                return self.int_binop(op, a, b)
            return mkint(za * zb)
        if t in (ast.FloorDiv, ast.Mod):
            if not isinstance(b, int):
                b = self.concretize_int(b, "symbolic divisor")
            if b == 0:
                raise ZeroDivisionError("integer division or modulo by zero")
            if isinstance(a, int):
                return PYOPS[t](a, b)
            q, r = self.divmod_const(a, b)
            return q if t is ast.FloorDiv else r
        if t is ast.Div:
            return self.float_binop(op, a, b)
        if t is ast.BitAnd:
            if isinstance(b, int) and b >= 0:
                return self.and_const(a, b)
            if isinstance(a, int) and a >= 0:
                return self.and_const(b, a)
        if t is ast.RShift and isinstance(b, int):
            return self.divmod_const(a, 2 ** b)[0]
        if t is ast.LShift and isinstance(b, int):
            return mkint(za * (2 ** b))
        if t in (ast.BitOr, ast.BitXor, ast.BitAnd):
            return self.bitop_via_bv(a, b, t)
        if t is ast.Pow:
            if not isinstance(b, int):
                b = self.concretize_int(b, "pow exponent")
            if isinstance(a, int):
                return a ** b
            if b < 0:
                raise Unsupported("negative pow of symbolic")
            r = 1
            for _ in range(b):
                r = self.int_binop(ast.Mult(), r, a)
            return r
        raise Unsupported(f"int binop {t.__name__}")

    def divmod_const(self, a, k):
        """floor division / modulo of a symbolic Int by a non-zero constant, eliminated into fresh q, r."""
        key = (a.t.get_id(), k)
        hit = self.divmod_cache.get(key)
        if hit is not None:
            return hit
        # exact multiples: (c*x) div k with k | c needs no fresh variables
        t = a.t
        if z3.is_mul(t) and t.num_args() == 2 and k > 0:
            c, x = t.arg(0), t.arg(1)
            if z3.is_int_value(x):
                c, x = x, c
            if z3.is_int_value(c) and c.as_long() % k == 0:
                res = (mkint(x * (c.as_long() // k)), 0)
                self.divmod_cache[key] = res
                return res
        self.fresh_n += 1
        q = z3.Int(f"_q{self.fresh_n}")
        r = z3.Int(f"_r{self.fresh_n}")
        self.add_fact(a.t == q * k + r)
        if k > 0:
            self.add_fact(z3.And(r >= 0, r < k))
        else:
            self.add_fact(z3.And(r <= 0, r > k))
        res = (SymInt(q), SymInt(r))
        self.divmod_cache[key] = res
        return res

    def and_const(self, a, mask):
        if mask == 0:
            return 0
        if isinstance(a, int):
            return a & mask
        if (mask + 1) & mask == 0:
            return self.divmod_const(a, mask + 1)[1]
        res = 0
        m, pos = mask, 0
        while m:
            if m & 1:
                start = pos
                while m & 1:
                    m >>= 1
                    pos += 1
                width = pos - start
                hi = self.divmod_const(a, 2 ** start)[0] if start else a
                fld = self.divmod_const(hi, 2 ** width)[1] if not isinstance(hi, int) else hi % (2 ** width)
                res = self.op("Add", res, self.op("Mult", fld, 2 ** start))
            else:
                m >>= 1
                pos += 1
        return res

    def bitop_via_bv(self, a, b, t, width=64):
        for v in (a, b):
            if not self.must(self.cmp("GtE", v, 0)) or not self.must(self.cmp("Lt", v, 2 ** width)):
                raise Unsupported("bit operation on Int outside [0, 2^64)")
        x, y = z3.Int2BV(zint(a), width), z3.Int2BV(zint(b), width)
        r = {ast.BitAnd: x & y, ast.BitOr: x | y, ast.BitXor: x ^ y}[t]
        return mkint(z3.BV2Int(r))

    # ---------------------------------------------------------------- floats
    def int_range_bits(self, v):
        """smallest b in a ladder with |v| <= 2**b on this path, or None"""
        for bits in (15, 20, 24, 32, 53):
            if self.must(self.cmp("LtE", v, 2 ** bits)) and self.must(self.cmp("GtE", v, -(2 ** bits))):
                return bits
        return None

    def to_fp(self, v):
        if isinstance(v, SymFloat):
            if v.t is not None:
                return v.t
            if v.ival is not None:
                return self.to_fp(v.ival)
            if v.dec is not None:
                raise Unsupported("floating-point arithmetic on a decimal-defined symbolic float")
            a, k = v.quot
            return z3.fpDiv(z3.RNE(), self.to_fp(a), z3.FPVal(float(k), F64))
        if isinstance(v, float):
            return z3.FPVal(v, F64)
        if isinstance(v, bool):
            return z3.FPVal(float(v), F64)
        if isinstance(v, int):
            return z3.FPVal(float(v), F64)
        if isinstance(v, SymBV):
            w = v.w + (0 if v.signed else 1)
            return z3.fpSignedToFP(z3.RNE(), v.ext(w), F64)
        if isinstance(v, SymInt):
            if not (self.must(self.cmp("LtE", v, 2 ** 100)) and self.must(self.cmp("GtE", v, -(2 ** 100)))):
                raise Unsupported("int->float of unbounded Int")
            return z3.fpSignedToFP(z3.RNE(), z3.Int2BV(v.t, 128), F64)
        raise Unsupported("to_fp " + type(v).__name__)

    def as_float(self, v):
        """float(x) for an int-like sym: integral tag when |v| < 2**53"""
        if isinstance(v, (SymInt, SymBV, SymBool)):
            if isinstance(v, SymBool):
                v = mkint(zint(v))
            if isinstance(v, int):
                return float(v)
            b = self.int_range_bits(v)
            if b is not None:
                return SymFloat(ival=v)
            return SymFloat(quot=(v, 1))      # float(int) is correctly rounded
        return v

    def float_binop(self, op, a, b):
        t = type(op)
        ia = a.ival if isinstance(a, SymFloat) else (a if isinstance(a, INTLIKE) else
                                                     (int(a) if isinstance(a, float) and a.is_integer() and abs(a) < 2 ** 53 else None))
        ib = b.ival if isinstance(b, SymFloat) else (b if isinstance(b, INTLIKE) else
                                                     (int(b) if isinstance(b, float) and b.is_integer() and abs(b) < 2 ** 53 else None))
        if t is ast.Div:
            if ia is not None and isinstance(ib, int) and not isinstance(ib, bool) and ib > 0 and not isinstance(ia, int):
                return SymFloat(quot=(ia, ib))
            if ib is not None and not isinstance(ib, int):
                if self.truth(self.cmp("Eq", ib, 0)):
                    raise ZeroDivisionError("division by zero")
            elif isinstance(ib, int) and ib == 0 or (isinstance(b, float) and b == 0.0):
                raise ZeroDivisionError("division by zero")
        if ia is not None and ib is not None and t in (ast.Add, ast.Sub, ast.Mult):
            r = self.binop(op, ia, ib)
            if isinstance(r, int):
                if abs(r) < 2 ** 53:
                    return float(r)
            elif self.int_range_bits(r) is not None:
                return SymFloat(ival=r)
        if t in (ast.Add, ast.Sub):
            # half-integers are exact doubles: keep them as the quotient (n, 2)
            ha, hb = self._halves(a), self._halves(b)
            if ha is not None and hb is not None:
                n = self.binop(op, ha, hb)
                if isinstance(n, int):
                    return n / 2
                if self.int_range_bits(n) is not None and self.must(self.cmp("GtE", n, 0)):
                    return SymFloat(quot=(n, 2))
        fa, fb = self.to_fp(a), self.to_fp(b)
        if t is ast.Div:
            if ib is None and self.decide(z3.fpIsZero(fb)):
                raise ZeroDivisionError("float division by zero")
            return SymFloat(z3.fpDiv(z3.RNE(), fa, fb))
        if t is ast.Mult:
            return SymFloat(z3.fpMul(z3.RNE(), fa, fb))
        if t is ast.Add:
            return SymFloat(z3.fpAdd(z3.RNE(), fa, fb))
        if t is ast.Sub:
            return SymFloat(z3.fpSub(z3.RNE(), fa, fb))
        raise Unsupported("float op " + t.__name__)

    def _halves(self, v):
        """2*v as an exact integer (symbolic or concrete) when v is known to be a multiple of 1/2, else None"""
        if isinstance(v, SymFloat):
            if v.ival is not None:
                return self.op("Mult", v.ival, 2)
            if v.quot is not None and v.quot[1] == 2:
                return v.quot[0]
            if v.quot is not None and v.quot[1] == 1:
                return self.op("Mult", v.quot[0], 2)
            return None
        if isinstance(v, bool):
            return 2 * int(v)
        if isinstance(v, (int, SymInt, SymBV)):
            return self.op("Mult", v, 2)
        if isinstance(v, float) and abs(v) < 2 ** 50 and (2 * v).is_integer():
            return int(2 * v)
        return None

    def lemma_truncdiv(self, k, bits):
        """forall 0 <= a <= 2^bits: trunc(fp(a)/fp(k)) == a div k, decided once as a QF_BVFP query."""
        key = (k, bits)
        if key not in LEMMAS:
            _load_lemma_cache()
        if key not in LEMMAS:
            w = 64
            cb = z3.BitVec("cb", w)
            s = z3.Solver()
            s.set("timeout", 120000)
            s.add(z3.ULE(cb, 2 ** bits))
            f = z3.fpDiv(z3.RNE(), z3.fpSignedToFP(z3.RNE(), cb, F64), z3.FPVal(float(k), F64))
            q = z3.fpToSBV(z3.RTZ(), f, z3.BitVecSort(w))
            s.add(q != z3.UDiv(cb, z3.BitVecVal(k, w)))
            t0 = time.time()
            r = str(s.check())
            LEMMAS[key] = r
            _store_lemma(key, r)
            LEMMA_LOG.append({"lemma": f"forall 0<=a<=2^{bits}: trunc(fp(a)/fp({k})) == a div {k}", "result": r,
                              "solver_s": round(time.time() - t0, 2)})
            self.stats["lemma_s"] += time.time() - t0
        return LEMMAS[key] == "unsat"

    def float_to_int(self, v, mode="trunc"):
        """int(f) / math.floor(f) / math.ceil(f)"""
        if v.ival is not None:
            return v.ival
        if v.quot is not None:
            a, k = v.quot
            if not self.must(self.cmp("GtE", a, 0)):
                raise Unsupported("int(a/k) with possibly negative a")
            bits = None
            for bb in (15, 20, 24, 32):
                if self.must(self.cmp("LtE", a, 2 ** bb)):
                    bits = bb
                    break
            if bits is None:
                raise Unsupported("int(a/k): a not bounded by 2^32")
            if not self.lemma_truncdiv(k, bits):
                raise Unsupported(f"lemma trunc(a/{k}) not proven")
            q = self.op("FloorDiv", a, k)
            if mode == "ceil":
                r = self.op("Mod", a, k)
                if self.truth(self.cmp("NotEq", r, 0)):
                    q = self.op("Add", q, 1)
            return q
        if self.decide(z3.Or(z3.fpIsNaN(v.t), z3.fpIsInf(v.t))):
            raise ValueError("cannot convert float NaN/inf to integer")
        rm = {"trunc": z3.RTZ(), "floor": z3.RTN(), "ceil": z3.RTP()}[mode]
        return mkint(z3.BV2Int(z3.fpToSBV(rm, v.t, z3.BitVecSort(128)), is_signed=True))

    # ---------------------------------------------------------------- sequences
    def seq_binop(self, op, a, b):
        t = type(op)
        if t is ast.Add:
            if isinstance(a, (SymStr, str, LazyStr)) and isinstance(b, (SymStr, str, LazyStr)):
                return self.concat_str([a, b])
            if isinstance(a, (SymBytes, bytes, bytearray)) and isinstance(b, (SymBytes, bytes, bytearray)):
                mut = a.mutable if isinstance(a, SymBytes) else isinstance(a, bytearray)
                return mkbytes(as_bytes_list(a) + as_bytes_list(b), mut)
            if isinstance(a, list) and isinstance(b, list):
                return a + b
            if isinstance(a, tuple) and isinstance(b, tuple):
                return a + b
            raise TypeError("unsupported operand type(s) for +")
        if t is ast.Mult:
            s, n = (a, b) if isinstance(a, (SymStr, SymBytes, LazyStr, str, bytes, bytearray, list, tuple)) else (b, a)
            n = self.concretize_int(n, "sequence repeat count")
            if isinstance(s, LazyStr):
                s = self.force_str(s)
            if isinstance(s, SymStr):
                return mkstr(s.cs * n)
            if isinstance(s, SymBytes):
                return mkbytes(s.bs * n, s.mutable)
            return s * n
        if t is ast.Mod:
            return LazyStr([("opaque", "%-format")])
        raise Unsupported("seq binop " + t.__name__)

    # ---------------------------------------------------------------- compare
    def compare(self, op, a, b):
        t = type(op)
        if t in (ast.Is, ast.IsNot):
            r = a is b
            return r if t is ast.Is else not r
        if t in (ast.In, ast.NotIn):
            r = self.contains(b, a)
            if t is ast.NotIn:
                return self.not_(r)
            return r
        if type(a).__name__ == "SymBlob" or type(b).__name__ == "SymBlob":
            from . import blob
            if t in (ast.Eq, ast.NotEq):
                r = blob.equal(self, a, b)
                return self.not_(r) if t is ast.NotEq else r
            raise Unsupported("blob ordering")
        if isinstance(a, (SymDT, SymTD)) or isinstance(b, (SymDT, SymTD)):
            from . import dtmodels
            return dtmodels.compare(self, t, a, b)
        if (isinstance(a, LazyStr) or isinstance(b, LazyStr)) and t in (ast.Eq, ast.NotEq):
            r = self.rope_eq(a, b)
            if r is not None:
                return self.not_(r) if t is ast.NotEq else r
        if isinstance(a, LazyStr):
            a = self.force_str(a)
        if isinstance(b, LazyStr):
            b = self.force_str(b)
        if isinstance(a, (SymStr, SymBytes)) or isinstance(b, (SymStr, SymBytes)):
            return self.seq_compare(t, a, b)
        if isinstance(a, SymFloat) or isinstance(b, SymFloat) or (
                (isinstance(a, float) or isinstance(b, float)) and (is_sym(a) or is_sym(b))):
            return self.float_compare(t, a, b)
        if isinstance(a, (SymInt, SymBV, SymBool)) or isinstance(b, (SymInt, SymBV, SymBool)):
            if not isinstance(a, INTLIKE) or not isinstance(b, INTLIKE):
                if t is ast.Eq:
                    return False
                if t is ast.NotEq:
                    return True
                raise TypeError(f"'{type(op).__name__}' not supported between {type(a).__name__} and {type(b).__name__}")
            if isinstance(a, SymBool) and isinstance(b, (SymBool, bool)) or isinstance(b, SymBool) and isinstance(a, bool):
                if t is ast.Eq:
                    return mkbool(zbool(a) == zbool(b))
                if t is ast.NotEq:
                    return mkbool(zbool(a) != zbool(b))
            if (isinstance(a, SymBV) or isinstance(b, SymBV)) and isinstance(a, (int, SymBV)) and isinstance(b, (int, SymBV)):
                ra, rb = self.bv_range(a), self.bv_range(b)
                # interval shortcut
                if t is ast.Lt and ra[1] < rb[0] or t is ast.LtE and ra[1] <= rb[0] or \
                        t is ast.Gt and ra[0] > rb[1] or t is ast.GtE and ra[0] >= rb[1]:
                    return True
                if t is ast.Lt and ra[0] >= rb[1] or t is ast.LtE and ra[0] > rb[1] or \
                        t is ast.Gt and ra[1] <= rb[0] or t is ast.GtE and ra[1] < rb[0]:
                    return False
                if t is ast.Eq and (ra[1] < rb[0] or rb[1] < ra[0]):
                    return False
                if t is ast.NotEq and (ra[1] < rb[0] or rb[1] < ra[0]):
                    return True
                x, y, w = bv_common(a, b)
                return mkbool(ZCMP[t](x, y))
            return mkbool(ZCMP[t](zint(a), zint(b)))
        if isinstance(a, (tuple, list)) and isinstance(b, (tuple, list)) and t in (ast.Eq, ast.NotEq):
            if isinstance(a, tuple) != isinstance(b, tuple):
                return t is ast.NotEq
            if len(a) != len(b):
                return t is ast.NotEq
            r = True
            for x, y in zip(a, b):
                c = self.compare(ast.Eq(), x, y)
                if c is False:
                    r = False
                    break
                r = self.and_(r, c)
            return self.not_(r) if t is ast.NotEq else r
        if isinstance(a, Opaque) or isinstance(b, Opaque):
            if t is ast.Eq:
                return a is b
            if t is ast.NotEq:
                return a is not b
            raise Unsupported("ordering on opaque value")
        # user-defined __eq__ in interpreted classes
        if t in (ast.Eq, ast.NotEq) and not isinstance(a, type):
            eq = _find_in_mro(type(a), "__eq__")
            if eq is not None and self.interpretable(eq):
                r = self.call_function(eq, [a, b], {})
                if r is not NotImplemented:
                    return self.not_(r) if t is ast.NotEq else r
        f = PYCMP[t]
        return f(a, b)

    def bv_range(self, v):
        if isinstance(v, int):
            return (v, v)
        if v.signed:
            return (-(2 ** (v.w - 1)), 2 ** (v.w - 1) - 1)
        return (0, 2 ** v.w - 1)

    def rational(self, v):
        """(num, den) with den a positive python int, when the float is the correctly rounded value of num/den"""
        if isinstance(v, SymFloat):
            if v.ival is not None:
                return (v.ival, 1)
            if v.quot is not None:
                return v.quot
            if v.dec is not None:
                neg, digits, e10 = v.dec
                D = 0
                for d in digits:
                    D = self.op("Add", self.op("Mult", D, 10), d)
                if isinstance(neg, bool):
                    if neg:
                        D = self.neg(D)
                else:
                    D = mkint(z3.If(zbool(neg), -zint(D), zint(D)))
                scale = e10 - (len(digits) - 1)
                if scale >= 0:
                    return (self.op("Mult", D, 10 ** scale), 1)
                return (D, 10 ** (-scale))
            return None
        if isinstance(v, INTLIKE):
            return (v, 1)
        if isinstance(v, float) and v.is_integer():
            return (int(v), 1)
        if isinstance(v, float) and v == v and abs(v) != float("inf"):
            from fractions import Fraction
            # a concrete double is the exactly-rounded value of its shortest repr decimal
            fr = Fraction(repr(v))
            return (fr.numerator, fr.denominator)
        return None

    def float_compare(self, t, a, b):
        num = (int, float, SymInt, SymBV, SymFloat, SymBool)
        if not isinstance(a, num) or not isinstance(b, num):
            if t is ast.Eq:
                return False
            if t is ast.NotEq:
                return True
            raise TypeError("float compare with non-number")
        if t in (ast.Eq, ast.NotEq) and ((isinstance(a, SymFloat) and (a.quot is not None or a.dec is not None)) or
                                         (isinstance(b, SymFloat) and (b.quot is not None or b.dec is not None))):
            ra, rb = self.rational(a), self.rational(b)
            if ra is not None and rb is not None:
                # equal rationals round to equal doubles (sufficient; a counterexample must replay natively)
                r = self.cmp("Eq", self.op("Mult", ra[0], rb[1]), self.op("Mult", rb[0], ra[1]))
                return self.not_(r) if t is ast.NotEq else r
        ia = a.ival if isinstance(a, SymFloat) else (a if isinstance(a, INTLIKE) else None)
        ib = b.ival if isinstance(b, SymFloat) else (b if isinstance(b, INTLIKE) else None)
        if isinstance(a, float) and a.is_integer():
            ia = int(a)
        if isinstance(b, float) and b.is_integer():
            ib = int(b)
        if ia is not None and ib is not None:
            return self.compare(t(), ia, ib)
        # exact comparison of an integral value with a non-integral float constant
        if ia is not None and isinstance(b, float) and b == b and abs(b) != float("inf"):
            import math
            fl = math.floor(b)
            return {ast.Eq: lambda: False, ast.NotEq: lambda: True,
                    ast.Lt: lambda: self.cmp("LtE", ia, fl), ast.LtE: lambda: self.cmp("LtE", ia, fl),
                    ast.Gt: lambda: self.cmp("Gt", ia, fl), ast.GtE: lambda: self.cmp("Gt", ia, fl)}[t]()
        if ib is not None and isinstance(a, float) and a == a and abs(a) != float("inf"):
            flip = {ast.Eq: ast.Eq, ast.NotEq: ast.NotEq, ast.Lt: ast.Gt, ast.LtE: ast.GtE, ast.Gt: ast.Lt, ast.GtE: ast.LtE}[t]
            return self.float_compare(flip, b, a)
        return mkbool(FCMP[t](self.to_fp(a), self.to_fp(b)))

    def seq_compare(self, t, a, b):
        if isinstance(a, (SymStr, str)) and isinstance(b, (SymStr, str)):
            ca, cb = chars(a), chars(b)
        elif isinstance(a, (SymBytes, bytes, bytearray)) and isinstance(b, (SymBytes, bytes, bytearray)):
            ca, cb = as_bytes_list(a), as_bytes_list(b)
        else:
            if t is ast.Eq:
                return False
            if t is ast.NotEq:
                return True
            raise TypeError("ordering between incompatible sequence types")
        if t in (ast.Eq, ast.NotEq):
            if len(ca) != len(cb):
                return t is ast.NotEq
            r = True
            for x, y in zip(ca, cb):
                c = self.compare(ast.Eq(), x, y)
                if c is False:
                    r = False
                    break
                r = self.and_(r, c)
            return self.not_(r) if t is ast.NotEq else r
        # lexicographic ordering
        strict = t in (ast.Lt, ast.Gt)
        lt = t in (ast.Lt, ast.LtE)
        res = (len(ca) < len(cb)) if lt else (len(ca) > len(cb))
        if len(ca) == len(cb):
            res = not strict
        for x, y in reversed(list(zip(ca, cb))):
            c1 = self.compare(ast.Lt() if lt else ast.Gt(), x, y)
            ceq = self.compare(ast.Eq(), x, y)
            res = self.or_(c1, self.and_(ceq, res))
        return res

    def rope_eq(self, a, b):
        """equality of unexpanded strings without expanding the ints, when that is exact; else None"""
        def norm(x):
            if isinstance(x, str):
                return [x]
            if not isinstance(x, LazyStr):
                return None
            out = []
            for p in x.parts:
                if isinstance(p, str):
                    if out and isinstance(out[-1], str):
                        out[-1] += p
                    elif p:
                        out.append(p)
                elif isinstance(p, tuple) and p[0] == "int":
                    out.append(p)
                else:
                    return None
            # every int part must be delimited by non-digit literals
            for i, p in enumerate(out):
                if isinstance(p, tuple):
                    if i > 0 and (isinstance(out[i - 1], tuple) or out[i - 1][-1].isdigit() or out[i - 1][-1] == "-"):
                        return None
                    if i + 1 < len(out) and (isinstance(out[i + 1], tuple) or out[i + 1][0].isdigit()):
                        return None
            return out
        na, nb = norm(a), norm(b)
        if na is None or nb is None:
            return None
        if len(nb) == 1 and isinstance(nb[0], str) and not (len(na) == 1 and isinstance(na[0], str)):
            na, nb = nb, na
        if len(na) == 1 and isinstance(na[0], str) and any(isinstance(p, tuple) for p in nb):
            # concrete string against a rope: match literals, parse ints
            text = na[0]
            res = True
            pos = 0
            for i, p in enumerate(nb):
                if isinstance(p, str):
                    if not text.startswith(p, pos):
                        return False
                    pos += len(p)
                else:
                    nxt = nb[i + 1] if i + 1 < len(nb) else None
                    end = len(text) if nxt is None else text.find(nxt[0], pos)
                    # the int literal extends to the first occurrence of the next literal's first char that is not part of a number
                    j = pos
                    if j < len(text) and text[j] == "-":
                        j += 1
                    while j < len(text) and text[j].isdigit():
                        j += 1
                    lit = text[pos:j]
                    if lit in ("", "-") or (lit.lstrip("-") != "0" and lit.lstrip("-").startswith("0")) or lit == "-0":
                        return False
                    res = self.and_(res, self.cmp("Eq", p[1], int(lit)))
                    pos = j
            if pos != len(text):
                return False
            return res
        if len(na) != len(nb):
            return None
        res = True
        for p, q in zip(na, nb):
            if isinstance(p, str) != isinstance(q, str):
                return None
            if isinstance(p, str):
                if p != q:
                    return False
            else:
                res = self.and_(res, self.cmp("Eq", p[1], q[1]))
        return res

    # boolean combinators over python bool / SymBool
    def not_(self, r):
        if isinstance(r, SymBool):
            return mkbool(z3.Not(r.t))
        return not self.truth(r)

    def and_(self, a, b):
        if a is False or b is False:
            return False
        if a is True:
            return b
        if b is True:
            return a
        return mkbool(z3.And(zbool(a), zbool(b)))

    def or_(self, a, b):
        if a is True or b is True:
            return True
        if a is False:
            return b
        if b is False:
            return a
        return mkbool(z3.Or(zbool(a), zbool(b)))

    def contains(self, container, item):
        if isinstance(container, LazyStr):
            container = self.force_str(container)
        if isinstance(item, LazyStr) and isinstance(container, (str, SymStr)):
            item = self.force_str(item)
        if isinstance(container, (str, SymStr)):
            if not isinstance(item, (str, SymStr)):
                raise TypeError("'in <string>' requires string as left operand")
            cc, ci = chars(container), chars(item)
            if len(ci) == 0:
                return True
            r = False
            for i in range(len(cc) - len(ci) + 1):
                m = True
                for j in range(len(ci)):
                    m = self.and_(m, self.compare(ast.Eq(), cc[i + j], ci[j]))
                    if m is False:
                        break
                r = self.or_(r, m)
                if r is True:
                    break
            return r
        if isinstance(container, (bytes, bytearray, SymBytes)):
            bl = as_bytes_list(container)
            r = False
            for x in bl:
                r = self.or_(r, self.compare(ast.Eq(), x, item))
            return r
        if isinstance(container, dict):
            extra = self.symdicts.get(id(container))
            if extra is not None or is_sym(item):
                r = False
                if extra is not None:
                    for k, _ in extra[1]:
                        r = self.or_(r, self.compare(ast.Eq(), item, k))
                for k in container:
                    r = self.or_(r, self.compare(ast.Eq(), item, k))
                return r
            if isinstance(item, (tuple,)) and any(is_sym(x) for x in item):
                r = False
                for k in container:
                    r = self.or_(r, self.compare(ast.Eq(), item, k))
                return r
            return item in container
        if isinstance(container, set) and id(container) in self.symsets:
            container = list(container) + list(self.symsets[id(container)][1])
        if isinstance(container, (list, tuple, set, frozenset)) or type(container).__name__ in ("dict_keys", "dict_values"):
            r = False
            for k in container:
                c = self.compare(ast.Eq(), item, k)
                r = self.or_(r, c)
                if r is True:
                    break
            return r
        co = _find_in_mro(type(container), "__contains__")
        if co is not None and self.interpretable(co):
            return self.call_function(co, [container, item], {})
        if is_sym(item):
            raise Unsupported(f"'in' on {type(container).__name__} with symbolic item")
        return item in container


def _find_in_mro(cls, name):
    for k in cls.__mro__:
        if name in k.__dict__:
            return k.__dict__[name]
    return None
