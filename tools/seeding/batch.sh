#!/bin/sh
# usage: batch.sh <round> id...
R=$1; shift
for id in "$@"; do
  echo "=== $id"
  /tmp/seedtools/verify_seed.sh ${id}r$R /tmp/seed${R}_$id 2>&1 | grep -v "^---"
  /tmp/seedtools/try_seed_wt.sh $id /tmp/seed${R}_$id
done
