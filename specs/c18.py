"""C18 - formula tokenizer is lossless and total (TokenizerError is the only failure)."""
from numbers_parser.tokenizer import Tokenizer, TokenizerError

from pysym.api import Cases, Harness, StrDom, assume, cover


def h18a_lossless_total(s):
    try:
        tok = Tokenizer(s)
    except TokenizerError:
        cover("rejected")
        return
    out = "".join([t.value for t in tok.items])
    assert out == s
    for t in tok.items:
        assert len(t.value) > 0


def h18b_quoted_not_split(s):
    """a token that starts with a double quote is one complete quoted string: closing quote present,
    inner quotes doubled, and the next token does not continue it"""
    try:
        tok = Tokenizer(s)
    except TokenizerError:
        cover("rejected")
        return
    items = tok.items
    for i in range(len(items)):
        v = items[i].value
        if v.startswith('"'):
            assert len(v) >= 2 and v.endswith('"')
            assert v.count('"') % 2 == 0
            # inner quotes come in adjacent pairs
            inner = v[1:-1]
            j = 0
            while j < len(inner):
                if inner[j] == '"':
                    assert j + 1 < len(inner) and inner[j + 1] == '"'
                    j += 2
                else:
                    j += 1
            if i + 1 < len(items):
                assert not items[i + 1].value.startswith('"')
        if v.startswith("'"):
            assert len(v) >= 2 and v.endswith("'")
    assert "".join([t.value for t in items]) == s


QUOTE_ALPHABET = [(34, 34), (39, 39), (97, 97), (43, 43), (58, 58), (32, 32), (40, 41)]   # " ' a + : space ( )

HARNESSES = [
    Harness("H18a", h18a_lossless_total,
            lambda tier: dict(n=Cases([0, 1, 2, 3] if tier == "quick" else [0, 1, 2, 3, 4])) and None,
            bounds=""),
]


def _mk(n):
    return Harness(f"H18a-n{n}", h18a_lossless_total, dict(s=StrDom(n)),
                   bounds=f"every string of exactly {n} Unicode scalar values (all symbolic)",
                   outside=["strings longer than the bound (x22 paths per character)", "the ~4900 fixture formulas"],
                   stubs=["float(str) in Token.make_operand: outcome model {ValueError, some float} (only the token subtype depends on it)",
                          "re: alphabet-partition model of STRING_REGEXES / SN_RE"])


def _mkq(n):
    return Harness(f"H18b-n{n}", h18b_quoted_not_split, dict(s=StrDom(n, QUOTE_ALPHABET)),
                   bounds=f"every string of exactly {n} characters over the alphabet \" ' a + : space ( )")


def harnesses(tier):
    ns = [0, 1, 2, 3] if tier == "quick" else [0, 1, 2, 3, 4]
    qs = [4, 5] if tier == "quick" else [4, 5, 6, 7]
    return [_mk(n) for n in ns] + [_mkq(n) for n in qs]


HARNESSES = harnesses("thorough")
TIER_HARNESSES = {"quick": [h.name for h in harnesses("quick")], "thorough": [h.name for h in harnesses("thorough")]}
PROPERTY = "C18"
