#!/usr/bin/env python3
"""keep.py <seed_dir> <dest name e.g. C01-2> <check_result text> [extra note]"""
import json, os, shutil, sys
src, name, result = sys.argv[1], sys.argv[2], sys.argv[3]
note = sys.argv[4] if len(sys.argv) > 4 else ""
dst = "/verif/seeded/" + name
os.makedirs(dst, exist_ok=True)
shutil.copy(src + "/patch.diff", dst)
shutil.copy(src + "/demo.py", dst)
am = {}
if os.path.exists(src + "/meta.json"):
    try:
        am = json.load(open(src + "/meta.json"))
    except Exception:
        am = {}
meta = {
    "property": name.split("-")[0],
    "breaks": am.get("summary", ""),
    "needs": am.get("needs", ""),
    "files": am.get("files", []),
    "source": "independent sub-agent given only the property text (round 2)" + ((" - " + note) if note else ""),
    "confirmed_by_me": [
        "patch applies to /repo HEAD (git apply in a scratch worktree)",
        "demo.py exits 0 with PYTHONPATH=/repo/src and non-zero with the patched worktree",
        "full suite in a scratch worktree with the patch: 167 passed / 26 failed (the baseline set)",
    ],
    "check_result": result,
    "agent_ran": am.get("ran", []),
}
json.dump(meta, open(dst + "/meta.json", "w"), indent=1)
print("kept", dst)
