"""C05 - IWA container arithmetic: chunk framing on encode, frame walking on decode, independence of chunking."""
import numbers_parser.iwafile as iwamod
from numbers_parser.iwafile import IWACompressedChunk, is_iwa_file

from pysym.api import BoolDom, BVDom, Cases, Harness, IntDom, assume, concretize, cover, nondet_bool, nondet_int, opaque_bytes

CALLS = []


class FakeArchive:
    def __init__(self, blob):
        self.blob = blob

    def to_buffer(self):
        return self.blob


class FakeSnappy:
    """contract stub: compress(b) returns some payload no longer than snappy's documented maximum; uncompress returns
    the original of a payload produced by compress, and may fail on anything else"""

    class UncompressError(Exception):
        pass

    @staticmethod
    def compress(data):
        n = len(data)
        m = nondet_int("compressed-length", 0, 32 + 65536 + 65536 // 6)
        assume(m <= 32 + n + n // 6)
        i = len(CALLS)
        payload = opaque_bytes("payload-%d" % i, m)
        CALLS.append((data, payload))
        return payload

    @staticmethod
    def uncompress(payload):
        for data, p in CALLS:
            if p == payload:
                return data
        raise FakeSnappy.UncompressError("not a snappy block")


def frame_walk(out):
    """reference walk over [0x00, 3-byte little-endian length, payload] frames: list of payload lengths"""
    lens = []
    pos = 0
    n = len(out)
    while pos < n:
        assert out[pos] == 0
        ln = out[pos + 1] + out[pos + 2] * 256 + out[pos + 3] * 65536
        lens.append(ln)
        pos += 4 + ln
        assert len(lens) <= 8
    assert pos == n
    return lens


def h05a_encode(L):
    """every emitted frame: marker 0x00, 3-byte length equal to the payload length, at most 65536 data bytes, and the
    frames' data concatenates to the stream - for every stream length"""
    del CALLS[:]
    stream = opaque_bytes("stream", L)
    chunk = IWACompressedChunk([FakeArchive(stream)])
    out = chunk.to_buffer()
    lens = frame_walk(out)
    assert len(lens) == len(CALLS)
    done = 0
    for i in range(len(CALLS)):
        data, payload = CALLS[i]
        assert 1 <= len(data) <= 65536
        assert data == stream[done:done + len(data)]
        assert lens[i] == len(payload) and lens[i] < 2 ** 24
        done += len(data)
        # only the last frame may carry fewer than 65536 bytes
        if i < len(CALLS) - 1:
            assert len(data) == 65536
    assert done == L
    assert len(CALLS) == (L + 65535) // 65536
    assert is_iwa_file(out)


def h05b_decode(n1, n2, n3, n4, k, ok1, ok2, ok3, ok4):
    """decoding k frames yields the concatenation of the per-frame data wherever the stream was cut into frames"""
    del CALLS[:]
    ns = [n1, n2, n3, n4][:k]
    oks = [ok1, ok2, ok3, ok4][:k]
    for n in ns:
        assume(n >= 1)
    frames = b""
    want = b""
    for i in range(k):
        payload = opaque_bytes("stored-%d" % i, ns[i])
        if oks[i]:
            data = opaque_bytes("data-%d" % i, 7 + i)
            CALLS.append((data, payload))
            want = want + data
        else:
            want = want + payload           # not a snappy block: stored as is
        frames = frames + b"\x00" + ns[i].to_bytes(3, "little") + payload
    got = b"".join(IWACompressedChunk._decompress_all(frames))
    assert got == want
    assert is_iwa_file(frames)


def h05b_sniff(n1, extra):
    """is_iwa_file accepts exactly buffers tiled by frames: trailing bytes that do not form a frame are rejected"""
    payload = opaque_bytes("stored-0", n1)
    frames = b"\x00" + n1.to_bytes(3, "little") + payload
    assert is_iwa_file(frames)
    if extra:
        assert not is_iwa_file(frames + b"\x01\x00\x00\x00")


STUBS = ["snappy.compress / uncompress: contract stub (active natively too): arbitrary payload of length <= 32 + n + n/6; "
         "uncompress inverts compress and fails on other payloads",
         "archive segments' to_buffer: opaque byte string of symbolic length"]
OUT = ["bytes inside protobuf messages and snappy blocks (C libraries)", "unknown-field preservation", "the ~5200 fixture archives",
       "segment layer (IWAArchiveSegment.from_buffer / to_buffer: protobuf ArchiveInfo parsing)"]
HARNESSES = [
    Harness("H05a", h05a_encode, lambda tier: dict(L=IntDom(0, 2 * 65536 + 1 if tier == "quick" else 4 * 65536 + 1)),
            bounds="uncompressed stream length symbolic in [0, 131073] (quick) / [0, 262145] (thorough): 0, 65535, 65536, 65537, 131072 "
                   "are all inside the range",
            stubs=STUBS, outside=OUT, patches=[(iwamod, "snappy", FakeSnappy)]),
    Harness("H05b", h05b_decode,
            lambda tier: dict(n1=IntDom(0, 2 ** 24 - 1), n2=IntDom(0, 2 ** 24 - 1), n3=IntDom(0, 2 ** 24 - 1), n4=IntDom(0, 2 ** 24 - 1),
                              k=Cases([0, 1, 2, 3] if tier == "quick" else [0, 1, 2, 3, 4]), ok1=BoolDom(), ok2=BoolDom(), ok3=BoolDom(), ok4=BoolDom()),
            bounds="0..3 (quick) / 0..4 (thorough) frames with symbolic payload lengths in [1, 2^24); each payload either a snappy block or stored as is",
            stubs=STUBS, outside=OUT, patches=[(iwamod, "snappy", FakeSnappy)]),
    Harness("H05b-sniff", h05b_sniff, dict(n1=IntDom(0, 2 ** 24 - 1), extra=BoolDom()),
            bounds="one frame of symbolic length, optionally followed by 4 bytes that are not a frame", stubs=STUBS[:1]),
]
PROPERTY = "C05"
