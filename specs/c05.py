"""C05 - IWA container arithmetic: chunk framing on encode, frame walking on decode, independence of chunking."""
import numbers_parser.iwafile as iwamod
from google.protobuf.internal.decoder import _DecodeVarint32
from google.protobuf.internal.encoder import _EncodeVarint, _VarintBytes
from numbers_parser.iwafile import IWAArchiveSegment, IWACompressedChunk, is_iwa_file

from pysym.api import BoolDom, BVDom, Cases, Harness, IntDom, assume, concretize, cover, nondet_bool, nondet_int, opaque_bytes

CALLS = []


class FakeArchive:
    def __init__(self, blob):
        self.blob = blob

    def to_buffer(self):
        return self.blob


class FakeSnappy:
    """contract stub: compress(b) returns some payload no longer than snappy's documented maximum; uncompress returns
    the original of a payload produced by compress, and may fail on anything else"""

    class UncompressError(Exception):
        pass

    @staticmethod
    def compress(data):
        n = len(data)
        m = nondet_int("compressed-length", 0, 32 + 65536 + 65536 // 6)
        assume(m <= 32 + n + n // 6)
        i = len(CALLS)
        payload = opaque_bytes("payload-%d" % i, m)
        CALLS.append((data, payload))
        return payload

    @staticmethod
    def uncompress(payload):
        for data, p in CALLS:
            if p == payload:
                return data
        raise FakeSnappy.UncompressError("not a snappy block")


def frame_walk(out):
    """reference walk over [0x00, 3-byte little-endian length, payload] frames: list of payload lengths"""
    lens = []
    pos = 0
    n = len(out)
    while pos < n:
        assert out[pos] == 0
        ln = out[pos + 1] + out[pos + 2] * 256 + out[pos + 3] * 65536
        lens.append(ln)
        pos += 4 + ln
        assert len(lens) <= 8
    assert pos == n
    return lens


def h05a_encode(L):
    """every emitted frame: marker 0x00, 3-byte length equal to the payload length, at most 65536 data bytes, and the
    frames' data concatenates to the stream - for every stream length"""
    del CALLS[:]
    stream = opaque_bytes("stream", L)
    chunk = IWACompressedChunk([FakeArchive(stream)])
    out = chunk.to_buffer()
    lens = frame_walk(out)
    assert len(lens) == len(CALLS)
    done = 0
    for i in range(len(CALLS)):
        data, payload = CALLS[i]
        assert 1 <= len(data) <= 65536
        assert data == stream[done:done + len(data)]
        assert lens[i] == len(payload) and lens[i] < 2 ** 24
        done += len(data)
        # only the last frame may carry fewer than 65536 bytes
        if i < len(CALLS) - 1:
            assert len(data) == 65536
    assert done == L
    assert len(CALLS) == (L + 65535) // 65536
    assert is_iwa_file(out)


def h05b_decode(n1, n2, n3, n4, k, ok1, ok2, ok3, ok4):
    """decoding k frames yields the concatenation of the per-frame data wherever the stream was cut into frames"""
    del CALLS[:]
    ns = [n1, n2, n3, n4][:k]
    oks = [ok1, ok2, ok3, ok4][:k]
    for n in ns:
        assume(n >= 1)
    frames = b""
    want = b""
    for i in range(k):
        payload = opaque_bytes("stored-%d" % i, ns[i])
        if oks[i]:
            data = opaque_bytes("data-%d" % i, 7 + i)
            CALLS.append((data, payload))
            want = want + data
        else:
            want = want + payload           # not a snappy block: stored as is
        frames = frames + b"\x00" + ns[i].to_bytes(3, "little") + payload
    got = b"".join(IWACompressedChunk._decompress_all(frames))
    assert got == want
    assert is_iwa_file(frames)


def h05b_sniff(n1, extra):
    """is_iwa_file accepts exactly buffers tiled by frames: trailing bytes that do not form a frame are rejected"""
    payload = opaque_bytes("stored-0", n1)
    frames = b"\x00" + n1.to_bytes(3, "little") + payload
    assert is_iwa_file(frames)
    if extra:
        assert not is_iwa_file(frames + b"\x01\x00\x00\x00")


# ------------------------------------------------------------------------------------------------ segment layer
HEADERS = []


class FakeInfo:
    def __init__(self, type_id, length):
        self.type = type_id
        self.length = length
        self.base_message_index = 0


class FakeHeader:
    """ArchiveInfo seen from the framing code: a size, the serialised bytes (opaque), the message_infos"""

    def __init__(self, size, infos):
        self.size = size
        self.message_infos = infos
        self.should_merge = False
        self.identifier = 1
        self.blob = opaque_bytes("header", size)
        HEADERS.append(self)

    def ByteSize(self):
        return self.size

    def SerializeToString(self):
        return self.blob

    def __repr__(self):
        return "<header>"


class FakeArchiveInfo:
    """ArchiveInfo.FromString: gives back the header whose serialised bytes these are (protobuf contract), fails otherwise"""

    @staticmethod
    def FromString(buf):
        for h in HEADERS:
            if h.blob == buf:
                return h
        raise ValueError("not an ArchiveInfo")


class FakeMsg:
    def __init__(self, blob):
        self.blob = blob

    def SerializeToString(self):
        return self.blob

    def SerializePartialToString(self):
        return self.blob

    @staticmethod
    def FromString(buf):
        return FakeMsg(buf)


def read_varint(buf):
    """independent base-128 reader: (value, number of bytes)"""
    value = 0
    shift = 0
    i = 0
    while True:
        assert i < 5
        b = buf[i]
        value += (b % 128) * (2 ** shift)
        i += 1
        if b < 128:
            return value, i
        shift += 7


def h05c_segment(H, m1, m2, stale1, stale2, two, trailing):
    """segment framing: varint(header size) + header + messages. The prefix decodes to the header size, the recorded
    message lengths equal the message sizes (stale ones are corrected), and decoding gives back the same header, the
    same message bytes and exactly the bytes that follow the segment"""
    del HEADERS[:]
    sizes = [m1, m2] if two else [m1]
    stale = [stale1, stale2]
    infos = [FakeInfo(1, sizes[i] + (3 if stale[i] else 0)) for i in range(len(sizes))]
    header = FakeHeader(H, infos)
    objs = [FakeMsg(opaque_bytes("msg-%d" % i, sizes[i])) for i in range(len(sizes))]
    seg = IWAArchiveSegment(header, objs)
    buf = seg.to_buffer()
    for i in range(len(sizes)):
        assert infos[i].length == sizes[i]                      # header lengths equal the message sizes
    n, used = read_varint(buf)
    assert n == H
    assert len(buf) == used + H + sum(sizes)
    rest = opaque_bytes("next-segment", trailing)
    seg2, remainder = IWAArchiveSegment.from_buffer(buf + rest)
    assert seg2.header is header
    assert len(seg2.objects) == len(objs)
    for a, b in zip(seg2.objects, objs):
        assert a.blob == b.blob
    assert remainder == rest


class FakeMsgB(FakeMsg):
    """a second message class: type 2 in the patched ID_NAME_MAP"""

    @staticmethod
    def FromString(buf):
        return FakeMsgB(buf)


def h05c_patches(t0, t1, b2, b3, m):
    """a mergeable segment: two base messages (types symbolic) followed by two patch messages (type 0), each naming its
    base message by index - every patch is decoded with the class of ITS base message, bytes and order kept"""
    from numbers_parser.iwafile import ProtobufPatch
    del HEADERS[:]
    assume(1 <= t0 <= 2 and 1 <= t1 <= 2 and 0 <= b2 <= 1 and 0 <= b3 <= 1)
    types = [t0, t1, 0, 0]
    infos = [FakeInfo(t, m) for t in types]
    infos[2].base_message_index = b2
    infos[3].base_message_index = b3
    header = FakeHeader(5, infos)
    header.should_merge = True
    klass = {1: FakeMsg, 2: FakeMsgB}
    objs = [klass[t0](opaque_bytes("msg-0", m)), klass[t1](opaque_bytes("msg-1", m)),
            ProtobufPatch(klass[types[b2]](opaque_bytes("msg-2", m))), ProtobufPatch(klass[types[b3]](opaque_bytes("msg-3", m)))]
    buf = IWAArchiveSegment(header, objs).to_buffer()
    seg2, remainder = IWAArchiveSegment.from_buffer(buf)
    assert len(remainder) == 0 and len(seg2.objects) == 4
    assert type(seg2.objects[0]) is klass[t0] and type(seg2.objects[1]) is klass[t1]
    for i, b in ((2, b2), (3, b3)):
        got = seg2.objects[i]
        assert type(got) is ProtobufPatch
        assert type(got.data) is klass[types[b]]               # decoded as a patch of its own base message
        assert got.data.blob == objs[i].data.blob
    for i in (0, 1):
        assert seg2.objects[i].blob == objs[i].blob


STUBS = ["snappy.compress / uncompress: contract stub (active natively too): arbitrary payload of length <= 32 + n + n/6; "
         "uncompress inverts compress and fails on other payloads",
         "archive segments' to_buffer: opaque byte string of symbolic length"]
OUT = ["bytes inside protobuf messages and snappy blocks (C libraries)", "unknown-field preservation", "the ~5200 fixture archives",
       "ArchiveInfo / message (de)serialisation itself (protobuf, C level)"]
HARNESSES = [
    Harness("H05a", h05a_encode, lambda tier: dict(L=IntDom(0, 2 * 65536 + 1 if tier == "quick" else 4 * 65536 + 1)),
            bounds="uncompressed stream length symbolic in [0, 131073] (quick) / [0, 262145] (thorough): 0, 65535, 65536, 65537, 131072 "
                   "are all inside the range",
            stubs=STUBS, outside=OUT, patches=[(iwamod, "snappy", FakeSnappy)]),
    Harness("H05b", h05b_decode,
            lambda tier: dict(n1=IntDom(0, 2 ** 24 - 1), n2=IntDom(0, 2 ** 24 - 1), n3=IntDom(0, 2 ** 24 - 1), n4=IntDom(0, 2 ** 24 - 1),
                              k=Cases([0, 1, 2, 3] if tier == "quick" else [0, 1, 2, 3, 4]), ok1=BoolDom(), ok2=BoolDom(), ok3=BoolDom(), ok4=BoolDom()),
            bounds="0..3 (quick) / 0..4 (thorough) frames with symbolic payload lengths in [1, 2^24); each payload either a snappy block or stored as is",
            stubs=STUBS, outside=OUT, patches=[(iwamod, "snappy", FakeSnappy)]),
    Harness("H05b-sniff", h05b_sniff, dict(n1=IntDom(0, 2 ** 24 - 1), extra=BoolDom()),
            bounds="one frame of symbolic length, optionally followed by 4 bytes that are not a frame", stubs=STUBS[:1]),
]
HARNESSES.append(
    Harness("H05c", h05c_segment,
            lambda tier: dict(H=IntDom(0, 2 ** 21), m1=IntDom(0, 2 ** 21), m2=IntDom(0, 2 ** 21), stale1=BoolDom(), stale2=BoolDom(),
                              two=Cases([False, True]), trailing=IntDom(0, 2 ** 21)),
            bounds="header size, message sizes and the number of bytes following the segment: every value 0..2^21 (symbolic): every "
                   "1-, 2-, 3- and 4-byte varint boundary (127/128, 16383/16384, 2097151/2097152) is inside; 1 or 2 messages; "
                   "recorded message lengths correct or stale",
            stubs=["ArchiveInfo / message records = attribute bags whose serialised form is an opaque byte string of symbolic "
                   "length; ArchiveInfo.FromString inverts SerializeToString (protobuf contract)",
                   "protobuf's pure-Python varint helpers (_VarintBytes/_EncodeVarint, _DecodeVarint32) are interpreted from their "
                   "source like repository code"],
            outside=OUT,
            patches=[(iwamod, "ArchiveInfo", FakeArchiveInfo), (iwamod, "ID_NAME_MAP", {1: FakeMsg})],
            interpret=[_VarintBytes, _EncodeVarint, _DecodeVarint32]))
HARNESSES.append(
    Harness("H05c-patches", h05c_patches,
            dict(t0=IntDom(), t1=IntDom(), b2=IntDom(), b3=IntDom(), m=IntDom(0, 300)),
            bounds="segment with should_merge set: two base messages of symbolic type (two message classes), two patch messages "
                   "with symbolic base indices, message size 0..300 (symbolic)",
            stubs=["message classes = two attribute-bag classes; a patch's SerializePartialToString = its message bytes",
                   "ArchiveInfo as in H05c"],
            outside=OUT + ["diff_field_path / fields_to_remove patching (not implemented by the library either)"],
            patches=[(iwamod, "ArchiveInfo", FakeArchiveInfo), (iwamod, "ID_NAME_MAP", {1: FakeMsg, 2: FakeMsgB})],
            interpret=[_VarintBytes, _EncodeVarint, _DecodeVarint32]))
PROPERTY = "C05"
