"""C20 (partial) - CSV import: what Converter._transform_data does to the cell grid before it is written.
The csv module (C level) and the Document save / cat-numbers export are outside; what is decided here is the per-cell
type coercion and the row/column bookkeeping of the real _csv2numbers.Converter."""
import math

from numbers_parser._csv2numbers import Converter

from pysym.api import BoolDom, Cases, Harness, IntDom, StrDom, assume, cover
from pysym.models import m_float_precise
from sigfig import round as REAL_SIGFIG


def converter(header, data, no_header=False, whitespace=False, reverse=False):
    c = object.__new__(Converter)           # __post_init__ would read a file: the state it builds is given directly
    c.no_header = no_header
    c.whitespace = whitespace
    c.reverse = reverse
    c.date_columns = None
    c.day_first = False
    c.header = header
    c.data = data
    return c


def squeeze(s):
    """reference for --whitespace: leading/trailing white space removed, inner runs collapsed to one space"""
    out = ""
    pending = False
    for ch in s:
        if ch.isspace():
            pending = True
        else:
            if pending and out:
                out += " "
            pending = False
            out += ch
    return out


def h20a_cell(s, whitespace, no_header):
    """one CSV cell of arbitrary text: it becomes a number only if it is a finite numeric spelling - text that merely
    resembles a special float (nan, inf, infinity) stays text - and text is kept character for character"""
    c = converter(None if no_header else ["A", "B"], [[s, "x"]], no_header=no_header, whitespace=whitespace)
    c._transform_data()
    assert len(c.data) == 1
    vals = list(c.data[0].values())
    assert len(vals) == 2
    v = vals[0]
    if isinstance(v, (int, float)) and not isinstance(v, bool):
        cover("number")
        assert math.isfinite(v)
    else:
        cover("text")
        assert v == (squeeze(s) if whitespace else s)
    assert vals[1] == "x"


REPRS = []


def float_of_repr(eng, v=0.0):
    """float() of the text the harness built as repr(x) is x (shortest-repr round trip, a CPython guarantee)"""
    from pysym.values import LazyStr, SymStr
    import z3
    if isinstance(v, LazyStr):
        v = eng.force_str(v)
    if isinstance(v, SymStr):
        for text, x in REPRS:
            t = eng.force_str(text) if isinstance(text, LazyStr) else text
            if len(t.cs) == len(v.cs) and all((a == b) if isinstance(a, int) or isinstance(b, int) else z3.eq(a.t, b.t)
                                               for a, b in zip(t.cs, v.cs)):
                return x
    return m_float_precise(eng, v)


def h20e_number_value(x, neg):
    """a CSV cell holding the shortest spelling of a finite float becomes a number cell whose stored (decimal128) value
    decodes to that float again - through the real converter coercion and the real cell codec"""
    from numbers_parser.cell import Cell, _pack_decimal128, _unpack_decimal128
    del REPRS[:]
    if neg:
        x = -x
    s = repr(x)
    REPRS.append((s, x))
    c = converter(["A", "B"], [[s, "x"]])
    c._transform_data()
    v = list(c.data[0].values())[0]
    assert isinstance(v, (int, float)) and not isinstance(v, bool)
    assert v == x
    cell = Cell._from_value(0, 0, v)
    assert _unpack_decimal128(_pack_decimal128(cell.value)) == x


def m_export_sigfig(eng, x, *args, **kw):
    """sigfig.round as the export calls it: a float of at most 15 significant digits rounded to 15 significant digits is
    itself. Any other use (other keywords, longer floats) is outside the model: the path is undecided and its inputs are
    replayed natively against the real sigfig"""
    from pysym.values import SymFloat, Unsupported, is_sym
    if not is_sym(x):
        return REAL_SIGFIG(x, *args, **kw)
    if args or set(kw) - {"sigfigs", "warn"} or kw.get("sigfigs") != 15:
        raise Unsupported("sigfig.round called in a way the export contract does not cover")
    if isinstance(x, SymFloat) and x.dec is not None and len(x.dec[1]) <= 15 and x.noise is None:
        return x
    raise Unsupported("sigfig.round of a float that is not given by <= 15 decimal digits")


def h20f_export(x, neg):
    """cat-numbers writes a number cell as text that reads back as the same number (the export half of the round trip,
    through the real _cat_numbers.cell_as_string)"""
    from numbers_parser._cat_numbers import cell_as_string
    from numbers_parser.cell import NumberCell
    del REPRS[:]
    if neg:
        x = -x
    cell = NumberCell.__new__(NumberCell)
    cell._value = x
    cell._formula_id = None
    out = cell_as_string(Args(), cell)
    text = str(out)                       # what csv.writer puts into the file
    REPRS.append((text, out))
    assert float(text) == x


class Args:
    formulas = False
    formatting = False
    brief = True


def h20b_columns(h1, h2, h3, ncols):
    """every row keeps one value per CSV column, in column order, whatever the header names are"""
    header = [h1, h2, h3][:ncols]
    row = ["p", "q", "r"][:ncols]
    c = converter(header, [list(row), list(row)])
    c._transform_data()
    assert len(c.data) == 2
    for r in c.data:
        assert list(r.values()) == row
    assert c.header == header


def h20c_rows(reverse, no_header):
    """rows stay in file order (reversed as a whole with --reverse); without a header the columns are numbered"""
    rows = [["a", "b"], ["c", "d"], ["e", "f"]]
    c = converter(None if no_header else ["A", "B"], [list(r) for r in rows], no_header=no_header, reverse=reverse)
    c._transform_data()
    got = [list(r.values()) for r in c.data]
    assert got == (list(reversed(rows)) if reverse else rows)
    if no_header:
        assert c.header == [0, 1]


def h20d_delete_rename(h1, h2, h3, which, new):
    """--delete removes exactly the named column from the header and from every row; --rename changes the header name
    only; the other columns keep their values and order"""
    header = [h1, h2, h3]
    assume(h1 != h2 and h1 != h3 and h2 != h3)          # duplicate header names: known finding KF-C20-dup-header (H20b)
    rows = [["p", "q", "r"], ["s", "t", "u"]]
    c = converter(list(header), [list(r) for r in rows])
    c._transform_data()
    victim = header[which]
    c.delete_columns([victim])
    keep = [i for i in range(3) if i != which]
    assert c.header == [header[i] for i in keep]
    for r, src in zip(c.data, rows):
        assert list(r.values()) == [src[i] for i in keep]
        assert list(r.keys()) == [header[i] for i in keep]
    # renaming one of the remaining columns touches the header only
    old = header[keep[0]]
    c.rename_columns({old: new})
    assert c.header == [new, header[keep[1]]]
    for r, src in zip(c.data, rows):
        assert list(r.values()) == [src[i] for i in keep]
    # deleting a column that does not exist is refused with the documented error
    assume(new != victim)
    try:
        c.delete_columns([victim])
        assert False
    except RuntimeError:
        pass


CSV_ALPHABET = [(0, 0xD7FF), (0xE000, 0x10FFFF)]
STUBS = ["float(str): every symbolic character is forked into its lexical class (sign, point, underscore, exponent letter, the "
         "letters of inf / infinity / nan, ASCII digit, other Unicode decimal digit, white space, other) and the real float() decides "
         "on a class-representative string (exact for strings too short to overflow through their exponent); the value of a "
         "finite result is an uninterpreted double",
         "Converter built without __post_init__ (no file): header and data rows given directly, as csv.reader delivers them"]
OUT = ["csv.reader / csv.writer (C level): quoting, delimiters, line breaks", "Document construction, save, reopen and the "
       "cat-numbers export (I/O; value round trip of numbers is C01's subject)", "--date columns (dateutil)", "the command-line "
       "entry point and its error reporting"]


def _cell(n):
    return Harness(f"H20a-n{n}", h20a_cell, dict(s=StrDom(n), whitespace=BoolDom(), no_header=BoolDom()),
                   bounds=f"every cell text of exactly {n} Unicode scalar values (symbolic); --whitespace on/off; header / --no-header",
                   stubs=STUBS, outside=OUT, models={float: m_float_precise})


NUM_Q = [(1, 0), (2, 1), (3, 0), (1, 15), (2, 17), (1, 22), (1, 33), (2, 35), (1, 38), (1, 60), (3, -2)]
NUM_T = NUM_Q + [(n, e) for n in (1, 2, 3) for e in (-5, 2, 5, 10, 16, 20, 25, 30, 34, 36, 40, 100, 300)]


def _num(n, e):
    from pysym.api import DecFloatDom
    return Harness(f"H20e-n{n}-e{e}", h20e_number_value, dict(x=DecFloatDom(n, e), neg=BoolDom()),
                   bounds=f"every float whose shortest decimal form has {n} significant digits (symbolic) at decimal exponent {e}, "
                          "both signs, spelled in a CSV cell the way repr() spells it",
                   stubs=["float(text) = x for the text repr(x) (CPython's shortest-repr round trip); other texts as H20a",
                          STUBS[1]],
                   outside=OUT + ["other spellings of the same number (thousands commas, leading zeros, upper-case E)"],
                   models={float: float_of_repr})


EXP_Q = [(1, 0), (3, 2), (15, 14), (1, -20), (2, -16), (4, -5), (1, 300)]
EXP_T = EXP_Q + [(n, e) for n in (1, 7, 15) for e in (-300, -100, -30, -17, -15, -7, -1, 5, 15, 16, 22, 100)]


def _exp(n, e):
    from pysym.api import DecFloatDom
    import numbers_parser._cat_numbers as catmod
    return Harness(f"H20f-n{n}-e{e}", h20f_export, dict(x=DecFloatDom(n, e), neg=BoolDom()),
                   bounds=f"every float whose shortest decimal form has {n} significant digits (symbolic) at decimal exponent {e}, "
                          "both signs, exported by the real cell_as_string",
                   stubs=["sigfig.round(float, sigfigs=15) = the float itself for floats of <= 15 significant digits (any other call "
                          "shape: undecided, inputs replayed natively with the real sigfig); csv.writer writes str(value)",
                          "float(text) = x for the text repr(x)"],
                   outside=["csv.writer quoting", "--formatting / --formulas output", "the Document the cell is read from"],
                   models={float: float_of_repr, REAL_SIGFIG: m_export_sigfig})


HARNESSES = [_cell(n) for n in (0, 1, 2, 3, 4)] + [_num(n, e) for n, e in NUM_T] + [_exp(n, e) for n, e in EXP_T] + [
    Harness("H20b", h20b_columns, dict(h1=StrDom(1), h2=StrDom(1), h3=StrDom(1), ncols=Cases([1, 2, 3])),
            bounds="1..3 columns whose header names are symbolic one-character strings (equal or not), two data rows",
            stubs=STUBS[1:], outside=OUT),
    Harness("H20d", h20d_delete_rename, dict(h1=StrDom(1), h2=StrDom(1), h3=StrDom(1), which=Cases([0, 1, 2]), new=StrDom(1)),
            bounds="3 columns with symbolic (distinct) one-character names, 2 data rows; every column deleted in turn; new name symbolic",
            stubs=STUBS[1:], outside=OUT),
    Harness("H20c", h20c_rows, dict(reverse=BoolDom(), no_header=BoolDom()),
            bounds="3 rows x 2 columns, --reverse on/off, header / --no-header", stubs=STUBS[1:], outside=OUT),
]
TIER_HARNESSES = {"quick": ["H20a-n0", "H20a-n1", "H20a-n2", "H20a-n3", "H20b", "H20c", "H20d"] + [f"H20e-n{n}-e{e}" for n, e in NUM_Q] +
                           [f"H20f-n{n}-e{e}" for n, e in EXP_Q],
                  "thorough": ["H20a-n0", "H20a-n1", "H20a-n2", "H20a-n3", "H20a-n4", "H20b", "H20c", "H20d"] +
                              [f"H20e-n{n}-e{e}" for n, e in NUM_T] + [f"H20f-n{n}-e{e}" for n, e in EXP_T]}
PROPERTY = "C20"
