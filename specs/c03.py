"""C03 - any edit history leaves each table equal to a plain grid: one inductive step from an arbitrary valid state."""
from numbers_parser.constants import MAX_COL_COUNT, MAX_ROW_COUNT

from pysym.api import BoolDom, Cases, Harness, IntDom, assume, cover
from specs.common import check_invariant, grid_values, make_table


def plain(R, C):
    return [["v%d,%d" % (r, c) for c in range(C)] for r in range(R)]


def h03_add_row(R, C, count, start, at_end, with_default):
    t = make_table(R, C)
    g = plain(R, C)
    a_start = None if at_end else start
    default = with_default if not isinstance(with_default, bool) else ("d" if with_default else None)
    try:
        t.add_row(count, a_start, default)
    except IndexError:
        assert not at_end and (start < 0 or start >= R)
        assert grid_values(t) == g and check_invariant(t)
        return
    assert at_end or 0 <= start < R
    s = R if at_end else start
    g[s:s] = [[default] * C for _ in range(count)]
    assert t.num_rows == R + count and t.num_cols == C
    assert grid_values(t) == g
    assert check_invariant(t)


def h03_add_column(R, C, count, start, at_end, with_default):
    t = make_table(R, C)
    g = plain(R, C)
    a_start = None if at_end else start
    default = with_default if not isinstance(with_default, bool) else ("d" if with_default else None)
    try:
        t.add_column(count, a_start, default)
    except IndexError:
        assert not at_end and (start < 0 or start >= C)
        assert grid_values(t) == g and check_invariant(t)
        return
    assert at_end or 0 <= start < C
    s = C if at_end else start
    for row in g:
        row[s:s] = [default] * count
    assert t.num_cols == C + count and t.num_rows == R
    assert grid_values(t) == g
    assert check_invariant(t)


def h03_delete_row(R, C, count, start, at_end):
    t = make_table(R, C)
    g = plain(R, C)
    a_start = None if at_end else start
    # documented precondition: the rows to delete exist
    assume(count <= R if at_end else (start < 0 or start >= R or start + count <= R))
    try:
        t.delete_row(count, a_start)
    except IndexError:
        assert not at_end and (start < 0 or start >= R)
        assert grid_values(t) == g and check_invariant(t)
        return
    assert at_end or 0 <= start < R
    if at_end:
        del g[R - count:]
    else:
        del g[start:start + count]
    assert t.num_rows == R - count and t.num_cols == C
    assert grid_values(t) == g
    assert check_invariant(t)


def h03_delete_column(R, C, count, start, at_end):
    t = make_table(R, C)
    g = plain(R, C)
    a_start = None if at_end else start
    assume(count <= C if at_end else (start < 0 or start >= C or start + count <= C))
    try:
        t.delete_column(count, a_start)
    except IndexError:
        assert not at_end and (start < 0 or start >= C)
        assert grid_values(t) == g and check_invariant(t)
        return
    assert at_end or 0 <= start < C
    for row in g:
        if at_end:
            del row[C - count:]
        else:
            del row[start:start + count]
    assert t.num_cols == C - count and t.num_rows == R
    assert grid_values(t) == g
    assert check_invariant(t)


def h03_write(R, C, row, col):
    t = make_table(R, C)
    g = plain(R, C)
    assume(row <= R + 1 or row >= MAX_ROW_COUNT)
    assume(col <= C + 1 or col >= MAX_COL_COUNT)
    try:
        t.write(row, col, "new")
    except IndexError:
        assert row < 0 or col < 0 or row >= MAX_ROW_COUNT or col >= MAX_COL_COUNT
        assert grid_values(t) == g and check_invariant(t)
        return
    assert row >= 0 and col >= 0
    nr = R if row < R else row + 1
    nc = C if col < C else col + 1
    for r in g:
        r.extend([None] * (nc - C))
    for _ in range(nr - R):
        g.append([None] * nc)
    g[row][col] = "new"
    assert grid_values(t) == g
    assert check_invariant(t)


def SH(tier):
    return dict(R=Cases([1, 2, 3] if tier == "quick" else [1, 2, 3, 4]), C=Cases([1, 2] if tier == "quick" else [1, 2, 3]))


def CNT(tier):
    return IntDom(1, 3 if tier == "quick" else 4)


def CNT0(tier):
    return IntDom(0, 3 if tier == "quick" else 4)          # deleting zero rows / columns leaves the grid as it is
OUT = ["save/reopen and isolation between documents (object store, protobuf, zip)", "add_table/add_sheet cloning",
       "shapes beyond 3x2 and counts beyond 3 (loops over cells are concrete)"]
# ------------------------------------------------------------------------------------------------ table cloning
import numbers_parser.model as modelmod  # noqa: E402
from numbers_parser.generated import TSPMessages_pb2 as TSPMessages  # noqa: E402
from numbers_parser.generated import TSTArchives_pb2 as TSTArchives  # noqa: E402
from numbers_parser.model import _NumbersModel  # noqa: E402
from numbers_parser.numbers_cache import Cacheable  # noqa: E402


class Bag:
    """protobuf message as an attribute bag: unknown attributes are empty sub-messages / lists as needed"""

    def __init__(self, **kw):
        self.__dict__.update(kw)

    def __getattr__(self, name):
        sub = Bag()
        self.__dict__[name] = sub
        return sub

    def MergeFrom(self, other):
        self.__dict__.update(other.__dict__)

    def append(self, item):
        self.__dict__.setdefault("_items", []).append(item)

    def ListFields(self):
        return []


def bag(eng=None, *a, **kw):
    return Bag(**kw)


class CloneProxy:
    def __init__(self, real, **over):
        self._real = real
        self.__dict__.update(over)

    def __getattr__(self, name):
        return getattr(self._real, name)


class ListTypes:
    STRING = 1
    STYLE = 4
    FORMULA = 5


FAKE_TST3 = CloneProxy(TSTArchives, DataStore=Bag, HeaderStorage=Bag, TableRBTree=Bag, TileStorage=Bag, TableModelArchive=Bag,
                       HeaderStorageBucket=Bag, StrokeSidecarArchive=Bag, TableInfoArchive=Bag,
                       TableDataList=Bag(ListType=ListTypes))
FAKE_TSP3 = CloneProxy(TSPMessages, Reference=Bag)


class FakeUUID:
    N = [0]

    def __init__(self, *a):
        FakeUUID.N[0] += 1
        self.n = FakeUUID.N[0]
        self.protobuf2 = Bag(n=self.n)

    def __str__(self):
        return "uuid-%d" % self.n


class CloneStore:
    def __init__(self):
        self.store = {}
        self.next = 1000
        self.created = []

    def __getitem__(self, k):
        return self.store[k]

    def create_object_from_dict(self, iwa, d, cls):
        self.next += 1
        obj = Bag(**d)
        self.store[self.next] = obj
        self.created.append((self.next, iwa))
        return self.next, obj

    def update_object_file_store(self):
        pass


class NoMerges:
    def get(self, rc):
        return None


class DirtyFlag:
    def __init__(self):
        self.marked = 0

    def mark_dirty(self):
        self.marked += 1


class CloneModel(Cacheable):
    """self for the real _NumbersModel.add_table / create_string_table; everything else the two call is a no-op stub"""
    add_table = _NumbersModel.add_table
    create_string_table = _NumbersModel.create_string_table

    def __init__(self):
        self.objects = CloneStore()
        self.objects.store[7] = Bag(base_data_store=Bag())          # the table that is cloned
        self.objects.store[3] = Bag(drawable_infos=Bag())           # the sheet
        self._table_data = {}
        self.name_ref_cache = DirtyFlag()
        self.refs = []

    def add_component_metadata(self, object_id, parent, pattern):
        pass

    def add_component_reference(self, object_id, location=None, component_id=None, is_weak=False, parent_id=None):
        pass

    def set_reference(self, obj, ref_id):
        obj.identifier = ref_id

    def create_drawable(self, sheet_id, x, y):
        return Bag(x=x, y=y)

    def add_formula_owner(self, *a):
        return FakeUUID()

    def calculate_table_uuid_map(self):
        pass

    def recalculate_table_data(self, table_id, data):
        pass

    def calc_engine_id(self):
        return 2

    def create_caption_archive(self, table_id):
        pass

    def caption_enabled(self, table_id, enabled=None):
        return False

    def merge_cells(self, table_id):
        return NoMerges()


def no_refs(obj):
    """field_references: the reference fields the object really carries (the cloned-from table's data store may carry a
    merge map of its own, a string list, a style list ...)"""
    return {k: dict(v) for k, v in obj.__dict__.get("_refs", {}).items()}


PER_TABLE = ["stringTable", "columnHeaders", "styleTable", "formula_table", "format_table_pre_bnc"]


def h03_clone(rows1, cols1, rows2, cols2, same_sheet, hdr=1, src_merges=False):
    """two tables added at run time share none of their per-table objects (string list, style list, formula list, format
    list, header buckets, stroke sidecar) - neither with each other nor with the table they were cloned from: an edit
    to one can never show up in the other"""
    assume(1 <= rows1 <= 1000 and 1 <= cols1 <= 1000 and 1 <= rows2 <= 1000 and 1 <= cols2 <= 1000)
    m = CloneModel()
    if src_merges:
        # the table that is cloned has merged cells and strings of its own (a reopened document)
        m.objects.store[7].base_data_store.__dict__["_refs"] = {"merge_region_map": {"identifier": 70}, "stringTable": {"identifier": 71},
                                                                 "styleTable": {"identifier": 72}}
    a = m.add_table(3, "A", 7, 0.0, 0.0, rows1, cols1, hdr, hdr)
    assert m.name_ref_cache.marked >= 1         # the document has one more table name: what the name cache knows is stale
    b = m.add_table(3, "B", 7 if same_sheet else a, 0.0, 0.0, rows2, cols2, hdr, hdr)
    assert m.name_ref_cache.marked >= 2
    assert a != b and a != 7 and b != 7
    ta, tb = m.objects[a], m.objects[b]
    ids_a = [getattr(ta.base_data_store, f)["identifier"] for f in PER_TABLE] + [ta.stroke_sidecar.identifier] + \
            [r.identifier for r in ta.base_data_store.rowHeaders.buckets._items]
    ids_b = [getattr(tb.base_data_store, f)["identifier"] for f in PER_TABLE] + [tb.stroke_sidecar.identifier] + \
            [r.identifier for r in tb.base_data_store.rowHeaders.buckets._items]
    assert len(ids_a) == 7 and len(ids_b) == 7
    for t in (ta, tb):
        # a new table has no merged cells: it does not point at the source table's merge map
        mm = t.base_data_store.__dict__.get("merge_region_map")
        assert mm is None or mm["identifier"] == 0
    for x in ids_a:
        assert x not in ids_b and x != 7 and x not in (70, 71, 72)
    assert len(set(ids_a)) == 7 and len(set(ids_b)) == 7
    assert ta.number_of_rows == rows1 and ta.number_of_columns == cols1
    assert tb.number_of_rows == rows2 and tb.number_of_columns == cols2
    assert len(m._table_data[a]) == rows1 and len(m._table_data[b]) == rows2
    assert m._table_data[a] is not m._table_data[b]


HARNESSES = [
    Harness("H03-add_row", h03_add_row, lambda tier: dict(SH(tier), count=CNT(tier), start=IntDom(), at_end=BoolDom(), with_default=Cases([None, "d", 0, ""])),
            bounds="start: every Python int or None; count 1..3 (quick) / 1..4 (thorough); default absent, a text, the number 0 or the empty text; shapes {1,2,3} x {1,2} (quick) / {1..4} x {1,2,3} (thorough)", outside=OUT),
    Harness("H03-add_column", h03_add_column, lambda tier: dict(SH(tier), count=CNT(tier), start=IntDom(), at_end=BoolDom(), with_default=Cases([None, "d", 0, ""])),
            bounds="start: every Python int or None; count 1..3; default absent, a text, the number 0 or the empty text"),
    Harness("H03-delete_row", h03_delete_row, lambda tier: dict(SH(tier), count=CNT0(tier), start=IntDom(), at_end=BoolDom()),
            bounds="start: every Python int or None; count 0..3 with the rows present (documented precondition)"),
    Harness("H03-delete_column", h03_delete_column, lambda tier: dict(SH(tier), count=CNT0(tier), start=IntDom(), at_end=BoolDom()),
            bounds="start: every Python int or None; count 0..3 with the columns present"),
    Harness("H03-write", h03_write, lambda tier: dict(SH(tier), row=IntDom(), col=IntDom()),
            bounds="position: every Python int pair that is negative, beyond the limits, or grows the table by <= 2"),
]
HARNESSES.append(
    Harness("H03-clone", h03_clone,
            dict(rows1=Cases([1, 3]), cols1=Cases([2]), rows2=Cases([1, 2]), cols2=Cases([2]), same_sheet=BoolDom(), hdr=Cases([0, 1]), src_merges=Cases([False, True])),
            bounds="two consecutive add_table calls (cloning the original table, or the first clone), small concrete shapes, with one or "
                   "no header row / column, the source table with or without a merge map of its own; each call invalidates the name cache",
            stubs=["object store and every protobuf message = attribute bags; the helpers add_table calls besides create_string_table "
                   "(metadata, drawable, formula owner, uuid map, tile rebuild, caption) are no-op stubs; NumbersUUID = counter"],
            outside=["what the cloned objects contain (protobuf construction)", "add_sheet", "isolation between simultaneously open documents"],
            patches=[(modelmod, "TSTArchives", FAKE_TST3), (modelmod, "TSPMessages", FAKE_TSP3), (modelmod, "NumbersUUID", FakeUUID),
                     (modelmod, "field_references", no_refs)]))
# "saving ... may be repeated, and the saved file reopens to the same grid": two consecutive saves of one open document
# (string list reset and re-keying) - harness shared with C06
from specs import c06 as _c06   # noqa: E402

HARNESSES += [h for h in _c06.HARNESSES if h.name == "H06a-two-saves"]
# "the saved file reopens to the same grid": the tile partition and row records every save rebuilds
# (recalculate_table_data / recalculate_row_info) - harnesses shared with C07
from specs import c07 as _c07   # noqa: E402

HARNESSES += [h for h in _c07.HARNESSES if h.name in ("H07a", "H07b")]
# 'the saved file reopens to the same grid': rows are found through the tile list and the row records - shared with C06
from specs import c06 as _c06b   # noqa: E402

HARNESSES += [h for h in _c06b.HARNESSES if h.name == "H06c"]
PROPERTY = "C03"
