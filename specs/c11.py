"""C11 - A1 and row/column addressing reach the same cell in every call; bounds hold."""
from numbers_parser.cell import Cell, Style
from numbers_parser.constants import MAX_COL_COUNT, MAX_ROW_COUNT
from numbers_parser.document import Table
from numbers_parser.xrefs import xl_rowcol_to_cell

from pysym.api import BoolDom, Cases, Harness, IntDom, assume, cover


class StubMerge:
    def get(self, rc):
        return False

    def is_merge_reference(self, rc):
        return False


class StubCache:
    def __init__(self):
        self.dirty = 0

    def mark_dirty(self):
        self.dirty += 1


class StubModel:
    def __init__(self):
        self.name_ref_cache = StubCache()
        self.nrows = None
        self.ncols = None
        self.styles = {}

    def merge_cells(self, table_id):
        return StubMerge()

    def number_of_rows(self, table_id, n=None):
        if n is not None:
            self.nrows = n
        return self.nrows

    def number_of_columns(self, table_id, n=None):
        if n is not None:
            self.ncols = n
        return self.ncols

    def num_header_rows(self, table_id):
        return 1

    def num_header_cols(self, table_id):
        return 1


def make_table(R, C):
    t = Table.__new__(Table)
    t._model = StubModel()
    t._table_id = 7
    t.num_rows = R
    t.num_cols = C
    t._data = [[Cell._empty_cell(7, r, c, t._model) for c in range(C)] for r in range(R)]
    t._model.nrows = R
    t._model.ncols = C
    return t


def snapshot(t):
    return [[id(x) for x in r] for r in t._data]


def h11a_cell(row, col, R, C):
    """Table.cell: in range -> that cell, same object through the A1 form; else IndexError and no change"""
    t = make_table(R, C)
    before = snapshot(t)
    try:
        c = t.cell(row, col)
    except IndexError:
        assert row < 0 or col < 0 or row >= R or col >= C
        assert snapshot(t) == before and t.num_rows == R and t.num_cols == C
        # the A1 form of an out-of-table position is rejected as well ('A0' is row -1)
        if row >= -1 and col >= 0 and row <= R and col <= C:
            ref = xl_rowcol_to_cell(row, col) if row >= 0 else "A0"
            if row < 0:
                assume(col == 0)
            try:
                t.cell(ref)
            except IndexError:
                cover("a1-rejected")
                return
            assert False, "A1 form accepted where row/col form was rejected"
        return
    assert 0 <= row < R and 0 <= col < C
    assert c is t._data[row][col]
    assert c.row == row and c.col == col
    assert t.cell(xl_rowcol_to_cell(row, col)) is c
    assert t.cell(xl_rowcol_to_cell(row, col, True, True)) is c
    assert snapshot(t) == before


def h11b_write(row, col, R, C, a1, how):
    """position-taking writers: negative / beyond-limit -> IndexError and nothing changes; inside the limits the
    table grows to exactly the required size and the value lands at [row][col]"""
    t = make_table(R, C)
    before = snapshot(t)
    style = Style()
    assume(row <= R + 2 or row >= MAX_ROW_COUNT)
    assume(col <= C + 2 or col >= MAX_COL_COUNT)
    if a1:
        assume(row >= -1 and col >= 0 and row <= R + 2 and col <= C + 2)
        if row < 0:
            assume(col == 0)
        ref = xl_rowcol_to_cell(row, col) if row >= 0 else "A0"
    try:
        if how == "write":
            if a1:
                t.write(ref, "v")
            else:
                t.write(row, col, "v")
        else:
            if a1:
                t.set_cell_style(ref, style)
            else:
                t.set_cell_style(row, col, style)
    except IndexError:
        assert row < 0 or col < 0 or row >= MAX_ROW_COUNT or col >= MAX_COL_COUNT
        assert t.num_rows == R and t.num_cols == C
        assert snapshot(t) == before
        return
    assert 0 <= row < MAX_ROW_COUNT
    assert 0 <= col < MAX_COL_COUNT
    assert t.num_rows == (row + 1 if row + 1 > R else R)
    assert t.num_cols == (col + 1 if col + 1 > C else C)
    assert len(t._data) == t.num_rows
    for r in t._data:
        assert len(r) == t.num_cols
    cell = t._data[row][col]
    if how == "write":
        assert cell.value == "v"
    else:
        assert cell._style is style
    assert cell.row == row and cell.col == col
    # every other pre-existing cell is untouched and still at its place
    for r in range(R):
        for c in range(C):
            if not (how == "write" and r == row and c == col):
                assert id(t._data[r][c]) == before[r][c]
    assert t._model.nrows == t.num_rows and t._model.ncols == t.num_cols


def h11c_iter(R, C, mn_r, mx_r, mn_c, mx_c, d_mn_r, d_mx_r, d_mn_c, d_mx_c, by_cols, values_only=False):
    """iter_rows / iter_cols visit exactly the addressed rectangle in order; out-of-table bounds -> IndexError"""
    t = make_table(R, C)
    if values_only:
        # every cell gets a value of its own, so that a value says which cell it came from
        for r in range(R):
            for c in range(C):
                t.write(r, c, "v%d.%d" % (r, c))
    a_mn_r = None if d_mn_r else mn_r
    a_mx_r = None if d_mx_r else mx_r
    a_mn_c = None if d_mn_c else mn_c
    a_mx_c = None if d_mx_c else mx_c
    e_mn_r = 0 if d_mn_r else mn_r
    e_mx_r = R - 1 if d_mx_r else mx_r
    e_mn_c = 0 if d_mn_c else mn_c
    e_mx_c = C - 1 if d_mx_c else mx_c
    must_fail = e_mn_r < 0 or e_mn_c < 0 or e_mx_r < 0 or e_mx_c < 0 or e_mx_r >= R or e_mx_c >= C
    all_inside = (0 <= e_mn_r <= e_mx_r < R) and (0 <= e_mn_c <= e_mx_c < C)
    try:
        if by_cols:
            got = list(t.iter_cols(min_col=a_mn_c, max_col=a_mx_c, min_row=a_mn_r, max_row=a_mx_r, values_only=values_only))
        else:
            got = list(t.iter_rows(min_row=a_mn_r, max_row=a_mx_r, min_col=a_mn_c, max_col=a_mx_c, values_only=values_only))
    except IndexError:
        assert not all_inside
        return
    assert not must_fail
    if all_inside:
        if by_cols:
            want = [tuple(t._data[r][c] for r in range(e_mn_r, e_mx_r + 1)) for c in range(e_mn_c, e_mx_c + 1)]
        else:
            want = [tuple(t._data[r][c] for c in range(e_mn_c, e_mx_c + 1)) for r in range(e_mn_r, e_mx_r + 1)]
        assert len(got) == len(want)
        for g, w in zip(got, want):
            assert len(g) == len(w)
            for x, y in zip(g, w):
                if values_only:
                    assert x == y.value
                else:
                    assert x is y
    else:
        # an empty or inverted rectangle may be reported as empty
        for g in got:
            assert len(g) == 0 or not got


class CountingTable(Table):
    """growth is counted instead of performed (one million add_row calls are not unrolled)"""

    def add_row(self, *a, **k):
        self.num_rows += 1

    def add_column(self, *a, **k):
        self.num_cols += 1


def h11d_a1(letters, digits, d1, d2, R, C, lower=False):
    """every A1 spelling (1-3 letters, up to 8 digits, optional '$'s) names the position its letters and digits say;
    positions at or after the limits (and row 0) are rejected, the others grow the table by exactly what is needed"""
    from numbers_parser.xrefs import xl_cell_to_rowcol
    s = ("$" if d1 else "") + letters + ("$" if d2 else "") + digits
    want_r = int(digits) - 1
    want_c = -1
    for ch in letters:
        want_c = (want_c + 1) * 26 + (ord(ch) - 65)
    if lower:
        # a lower-case spelling is either refused (IndexError, nothing changes) or names the same position
        s = s.lower()
        t = CountingTable.__new__(CountingTable)
        t.num_rows = R
        t.num_cols = C
        try:
            got = t._validate_cell_coords(s, "v")
        except IndexError:
            assert t.num_rows == R and t.num_cols == C
            cover("lower-case refused")
            return
        assert got == (want_r, want_c, "v")
        return
    r, c = xl_cell_to_rowcol(s)
    assert r == want_r
    assert c == want_c
    t = CountingTable.__new__(CountingTable)
    t.num_rows = R
    t.num_cols = C
    try:
        got = t._validate_cell_coords(s, "v")
    except IndexError:
        assert want_r < 0 or want_r >= MAX_ROW_COUNT or want_c >= MAX_COL_COUNT
        assert t.num_rows == R and t.num_cols == C
        return
    assert 0 <= want_r < MAX_ROW_COUNT and 0 <= want_c < MAX_COL_COUNT
    assert got == (want_r, want_c, "v")
    assert t.num_rows == (want_r + 1 if want_r + 1 > R else R)
    assert t.num_cols == (want_c + 1 if want_c + 1 > C else C)


def h11e_history(row, col, ndel, abs_form):
    """write by A1 reference (the table grows), delete rows so that the position is outside the table again, write by the
    SAME reference again: the second write grows the table to exactly the needed size and lands at [row][col], exactly as
    the row/column form does"""
    R, C = 2, 2
    assume(0 <= row <= R + 2 and 0 <= col <= C + 1)
    t = make_table(R, C)
    ref = xl_rowcol_to_cell(row, col, abs_form, abs_form)
    t.write(ref, "first")
    assert t.num_rows == (row + 1 if row + 1 > R else R) and t.num_cols == (col + 1 if col + 1 > C else C)
    rows_now = t.num_rows
    assume(1 <= ndel <= rows_now - 1)
    t.delete_row(num_rows=ndel, start_row=rows_now - ndel)          # the last ndel rows go
    assert t.num_rows == rows_now - ndel and len(t._data) == t.num_rows
    cols_now = t.num_cols
    t.write(ref, "second")
    want_rows = row + 1 if row + 1 > rows_now - ndel else rows_now - ndel
    assert t.num_rows == want_rows and t.num_cols == cols_now
    assert len(t._data) == t.num_rows
    for r in t._data:
        assert len(r) == t.num_cols
    assert t._data[row][col].value == "second"
    assert t.cell(row, col) is t._data[row][col] and t.cell(ref) is t._data[row][col]


def h11f_read_edit_read(row, col, op, abs_form):
    """a cell read by A1 reference, the table edited around it, the same reference read again: both forms name the cell
    that is at that position NOW (or both raise IndexError when the position has left the table)"""
    R, C = 3, 3
    assume(0 <= row < R and 0 <= col < C)
    t = make_table(R, C)
    ref = xl_rowcol_to_cell(row, col, abs_form, abs_form)
    assert t.cell(ref) is t._data[row][col]
    if op == "add_row_first":
        t.add_row(start_row=0)
    elif op == "delete_last_row":
        t.delete_row(start_row=R - 1)
    elif op == "add_col_first":
        t.add_column(start_col=0)
    else:
        t.delete_column(start_col=C - 1)
    try:
        now = t.cell(row, col)
    except IndexError:
        try:
            t.cell(ref)
        except IndexError:
            cover("both-rejected")
            return
        assert False, "A1 form still answers for a position that left the table"
    assert t.cell(ref) is now
    assert now is t._data[row][col] and now.row == row and now.col == col


SHAPES = [1, 2, 3]


def _pos(lim, grow):
    return IntDom()


HARNESSES = [
    Harness("H11a", h11a_cell, lambda tier: dict(row=IntDom(), col=IntDom(), R=Cases([1, 3] if tier == "quick" else [1, 2, 3, 5]), C=Cases([1, 2] if tier == "quick" else [1, 2, 4])),
            bounds="row, col: every Python int; table shapes {1,3} x {1,2} (quick) / {1,2,3,5} x {1,2,4} (thorough)",
            stubs=["Table built with object.__new__ over a grid of real empty cells; model stub (merge map empty, header counts 1)"]),
    Harness("H11b", h11b_write,
            dict(row=IntDom(), col=IntDom(), R=Cases([1, 2]), C=Cases([1, 2]), a1=Cases([False, True]), how=Cases(["write", "style"])),
            bounds="row/col: every Python int that is negative, grows the table by <= 3, or is at/after the documented "
                   "limits (1 000 000 rows, 1000 columns); shapes {1,2} x {1,2}; row/col and A1 ('A0' included) forms",
            outside=["growth by more than 3 rows/columns inside the limits (loops are unrolled concretely)",
                     "set_cell_formatting / set_cell_border position handling beyond _validate_cell_coords"]),
    Harness("H11e", h11e_history, dict(row=IntDom(), col=IntDom(), ndel=IntDom(), abs_form=BoolDom()),
            bounds="2x2 table; A1 position in rows 0..4, columns 0..3 (symbolic); 1..rows-1 trailing rows deleted in between "
                   "(symbolic); plain and '$' spelling",
            stubs=["Table over a grid of real empty cells; model stub"],
            outside=["column deletion in between", "the other position-taking methods (they share _validate_cell_coords)"]),
    Harness("H11f", h11f_read_edit_read,
            dict(row=IntDom(), col=IntDom(), op=Cases(["add_row_first", "delete_last_row", "add_col_first", "delete_last_col"]), abs_form=BoolDom()),
            bounds="3x3 table, any position (symbolic), one row / column inserted first or deleted last between two reads by the same "
                   "A1 reference",
            stubs=["Table over a grid of real empty cells; model stub"]),
    Harness("H11c", h11c_iter,
            lambda tier: dict(R=Cases([1, 3] if tier == "quick" else [1, 2, 3, 4]), C=Cases([2] if tier == "quick" else [1, 2, 3]), mn_r=IntDom(), mx_r=IntDom(), mn_c=IntDom(), mx_c=IntDom(),
                 d_mn_r=BoolDom(), d_mx_r=BoolDom(), d_mn_c=BoolDom(), d_mx_c=BoolDom(), by_cols=Cases([False, True]),
                 values_only=Cases([False, True])),
            bounds="cells or values only; min/max row/col: every Python int or None (default); shapes {1,3} x {2} (quick) / {1..4} x {1,2,3} (thorough)"),
]


def _h11d(nl, nd):
    from pysym.api import StrDom
    return Harness(f"H11d-l{nl}d{nd}", h11d_a1,
                   dict(letters=StrDom(nl, [(65, 90)]), digits=StrDom(nd, [(48, 57)]), d1=BoolDom(), d2=BoolDom(), lower=Cases([False, True]),
                        R=Cases([2] if nd == 1 else [MAX_ROW_COUNT]), C=Cases([MAX_COL_COUNT])),
                   bounds=f"A1 strings [$]L{{{nl}}}[$]D{{{nd}}}: every upper-case string of {nl} letters, every string of {nd} "
                          "digits (leading zeros included), both '$' flags, upper case and all-lower-case (refused or same position); 2 rows for the one-digit forms (rows grow), otherwise "
                          "a table already at the documented maximum size (growth loops are H11b's subject)",
                   stubs=["Table.add_row / add_column replaced by counters (growth up to 10^6 rows is counted, not performed)"],
                   outside=["mixed-case spellings", "more than 8 digits"])


_BASE = [h.name for h in HARNESSES]
_ALL_D = [(l, d) for l in (1, 2, 3) for d in range(1, 9)]
_QUICK_D = [(1, 1), (3, 6), (2, 7), (3, 7)]
HARNESSES += [_h11d(l, d) for l, d in _ALL_D]
TIER_HARNESSES = {"quick": _BASE + [f"H11d-l{l}d{d}" for l, d in _QUICK_D]}


PROPERTY = "C11"
