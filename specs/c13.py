"""C13 - displayed numbers agree numerically with the stored value.
H13-decimal / H13-currency: grouping separators, negative styles, currency symbols, accounting layout and percent only
decorate: they never drop, add or change a digit, and the sign is shown exactly once.
H13-base / H13-base-round / H13-twos: the number-base format read back in its base is the value rounded to an integer
(sign-and-magnitude or two's complement).  H13-fraction / H13-fraction-n: the fraction read back is the value rounded to
the displayed denominator.  H13-sci: the scientific form read back is the value rounded to the displayed digits."""
from decimal import Decimal

import numbers_parser.cell as cellmod
from numbers_parser.cell import (_format_base, _format_currency, _format_decimal, _format_fraction, _format_scientific)
from numbers_parser.cell import NumberCell
from numbers_parser.constants import DECIMAL_PLACES_AUTO, CellType, FormatType
from numbers_parser.currencies import CURRENCY_SYMBOLS

from sigfig import round as REAL_SIGFIG

from pysym.api import (BoolDom, Cases, DecFloatDom, Harness, IntDom, assume, concretize, cover, is_symbolic, nondet_int,
                       nondet_str, round15)


class Rec:
    def __init__(self, **kw):
        self.__dict__.update(kw)


LAST = []
SHAPE = [1, 0]          # digits before / after the point that the rounding stub produces on this run


class Num:
    """what sigfig.round returns without type=str: prints as its digits"""

    def __init__(self, text):
        self.text = text

    def __str__(self):
        return self.text


def group3(digits, from_left=False):
    out = ""
    n = len(digits)
    for i in range(n):
        if i and ((i % 3 == 0) if from_left else ((n - i) % 3 == 0)):
            out += ","
        out += digits[i]
    return out


def fake_sigfig(x, *args, **kw):
    """contract stub of sigfig.round: the digits are some rounding of the argument (not inspected here); the sign is the
    argument's; type=str gives a plain digit string; spacer groups by three"""
    if isinstance(x, str):
        neg = x.startswith("-")
        body = x[1:] if neg else x
        if kw.get("spacer") is not None:
            parts = body.split(".")
            res = group3(parts[0])
            if len(parts) > 1:
                res = res + "." + group3(parts[1], True)
            return ("-" if neg else "") + res
        # re-rounding a digit string to N decimals: fresh digits of the requested shape
        nd = kw["decimals"]
    else:
        neg = x < 0
        nd = None
    ni = SHAPE[0]
    ip = nondet_str("ipart", ni)
    if ni > 1:
        assume(ip[0] != "0")            # a rounded decimal has no leading zeros
    if nd is None:
        nf = SHAPE[1]
    else:
        nf = concretize(nd)
    fp = nondet_str("fpart", nf)
    s = ip + ("." + fp if nf else "")
    LAST.append(s)
    if kw.get("type") is str or isinstance(x, str):
        return ("-" if neg else "") + s
    return Num(("-" if neg else "") + s)


def strip(text):
    out = ""
    for ch in text:
        if ch not in ",()%-\t$ ":
            out += ch
    return out


VALUES = {"neg-frac": -12.5, "neg-int": -3.0, "pos-frac": 12.5, "pos-int": 7.0}


def h13_decimal(vclass, negative_style, thousands, places, percent, ni, nf):
    """_format_decimal: the digits the rounding step produced appear unchanged; negative shown once per the style"""
    del LAST[:]
    SHAPE[0] = ni
    SHAPE[1] = nf
    value = VALUES[vclass]
    assume(0 <= negative_style <= 3)
    assume(places == DECIMAL_PLACES_AUTO or 0 <= places <= 3)
    fmt = Rec(negative_style=negative_style, show_thousands_separator=thousands, decimal_places=places)
    out = _format_decimal(value, fmt, percent)
    if not LAST:
        # integral value with automatic decimals: printed from the integer itself
        digits = str(abs(int(value)))
    else:
        digits = LAST[-1]
    assert strip(out) == digits.replace(".", ".")
    neg = value < 0
    minus = out.count("-")
    paren = out.count("(") + out.count(")")
    if not neg:
        assert minus == 0 and paren == 0
    elif negative_style == 0:
        assert minus == 1 and out.startswith("-") and paren == 0
    elif negative_style == 1:
        assert minus == 0 and paren == 0            # colour only
    else:
        assert minus == 0 and out.startswith("(") and out.endswith(")") and paren == 2
    assert out.count("%") == (1 if percent else 0)
    if not thousands:
        assert "," not in out
    else:
        ip = digits.split(".")[0]
        assert out.count(",") == (len(ip) - 1) // 3


def h13_currency(vclass, negative_style, thousands, places, accounting, known, ni, nf):
    del LAST[:]
    SHAPE[0] = ni
    SHAPE[1] = nf
    value = VALUES[vclass]
    assume(0 <= negative_style <= 3)
    assume(places == DECIMAL_PLACES_AUTO or 0 <= places <= 2)
    code = "GBP" if known else "XQZ"
    fmt = Rec(negative_style=negative_style, show_thousands_separator=thousands, decimal_places=places,
              use_accounting_style=accounting, currency_code=code)
    out = _format_currency(value, fmt)
    symbol = CURRENCY_SYMBOLS[code] if known else code + " "
    assert out.startswith(symbol)
    rest = out[len(symbol):]
    digits = LAST[-1] if LAST else str(abs(int(value)))
    assert strip(rest) == digits            # no digit dropped, none added
    neg = value < 0
    minus = rest.count("-")
    paren = rest.count("(") + rest.count(")")
    if accounting:
        assert rest.startswith("\t")
        if neg:
            assert minus == 0 and paren == 2 and rest[1] == "(" and rest.endswith(")")
        else:
            assert minus == 0 and paren == 0
    elif not neg:
        assert minus == 0 and paren == 0
    elif negative_style == 0:
        assert minus == 1 and paren == 0
    elif negative_style == 1:
        assert minus == 0 and paren == 0
    else:
        assert minus == 0 and paren == 2


# ------------------------------------------------------------------------------------------------ decimal: numeric
REG = []            # strings handed out by the numeric sigfig contract, with what they denote


class Shown:
    """a decimal string the rounding step returned: sign, digit list, number of digits before the point"""

    def __init__(self, neg, digits, p):
        self.neg, self.digits, self.p = neg, digits, p
        ip = digits[:p] if p > 0 else [0]
        fp = ([0] * (-p) if p < 0 else []) + digits[max(p, 0):]
        text = "".join([chr(48 + d) for d in ip])
        if fp:
            text += "." + "".join([chr(48 + d) for d in fp])
        self.text = ("-" if neg else "") + text
        self.nfrac = len(fp)
        REG.append(self)


def lookup(text):
    for e in REG:
        if e.text is text:
            return e
    assert False


def numeric_sigfig(x, *args, **kw):
    """contract of sigfig.round as _format_decimal uses it (compared with the real sigfig on every native replay):
    (float, 15, type=str)      -> the value in positional notation with exactly 15 significant digits
    (float, 15)                -> the value itself (<= 15 significant digits)
    (str, decimals=k, type=str)-> that decimal rounded half away from zero to k decimals
    (str, spacer=',', spacing=3, type=str) -> digits grouped by three on both sides of the point"""
    res = _numeric_sigfig(x, args, kw)
    if not is_symbolic(x) and not is_symbolic(res) and not is_symbolic(kw.get("decimals")):
        real = REAL_SIGFIG(x, *args, **kw)
        assert (real == res) if isinstance(res, str) else (float(real) == float(res))
    return res


def _numeric_sigfig(x, args, kw):
    if not isinstance(x, str):
        x = round15(x)                              # 15 significant digits: a product's rounding noise is gone
        if kw.get("type") is not str:
            return x
        tup = Decimal(repr(abs(x))).as_tuple()
        digits = list(tup.digits)
        exponent = tup.exponent
        while len(digits) > 1 and digits[-1] == 0:          # repr(1e14) is '100000000000000.0': drop trailing zeros
            digits.pop()
            exponent += 1
        n = len(digits)
        p = n + exponent                           # digits before the decimal point (may be <= 0 or > 15)
        digits15 = digits + [0] * (15 - n)
        if p > 15:
            digits15 = digits15 + [0] * (p - 15)
        return Shown(x < 0, digits15, p).text
    if kw.get("spacer") is not None:
        parts = x.split(".")
        neg = parts[0].startswith("-")
        body = parts[0][1:] if neg else parts[0]
        zero = True
        for ch in x:
            if "1" <= ch <= "9":
                zero = False
        if zero:
            return ("-" if neg else "") + "0"          # observed sigfig behaviour: a zero loses its decimals here
        res = group3(body)
        if len(parts) > 1:
            res = res + "." + group3(parts[1], True)
        return ("-" if neg else "") + res
    e = lookup(x)
    k = concretize(kw["decimals"])
    digits, p = e.digits, e.p
    size = len(digits)
    keep = p + k                                   # value * 10^k = 0.d1 d2 ... x 10^keep
    if keep >= size:
        N = 0
        for d in digits:
            N = N * 10 + d
        N = N * 10 ** (keep - size)
    elif keep < 0:
        N = 0
    else:
        N = 0
        for d in digits[:keep]:
            N = N * 10 + d
        if digits[keep] >= 5:                      # half away from zero (the digits after it only add to it)
            N = N + 1
    ds = [ord(c) - 48 for c in str(N)]
    if len(ds) < k + 1:
        ds = [0] * (k + 1 - len(ds)) + ds
    neg = e.neg if N != 0 else False               # a negative value that rounds to zero is shown without a sign
    return Shown(neg, ds, len(ds) - k).text


def h13_decimal_num(x, negative_style, thousands, places, percent):
    """_format_decimal: the number displayed, read back, is the value rounded to the decimals shown (either neighbour on
    a tie); the number of decimals is the number asked for"""
    del REG[:]
    assume(0 <= negative_style <= 3)
    fmt = Rec(negative_style=negative_style, show_thousands_separator=thousands, decimal_places=places)
    out = _format_decimal(x, fmt, percent)
    text = strip(out)
    assert len(text) >= 1
    parts = text.split(".")
    assert 1 <= len(parts) <= 2
    ip = parts[0]
    fp = parts[1] if len(parts) == 2 else ""
    assert len(ip) >= 1
    if places != DECIMAL_PLACES_AUTO:
        assert len(fp) == places
    for ch in ip + fp:
        assert "0" <= ch <= "9"                            # plain decimal notation: no exponent, nothing else
    shown = int(ip + fp)                                   # shown * 10^-len(fp)
    tup = Decimal(repr(abs(x))).as_tuple()
    D = 0
    for d in tup.digits:
        D = D * 10 + d
    a = -len(fp)
    b = tup.exponent
    lo = min(a, b)
    left = shown * 10 ** (a - lo)
    right = D * 10 ** (b - lo)
    unit = 10 ** (a - lo)
    if places == DECIMAL_PLACES_AUTO:
        assert left == right                        # automatic: nothing is rounded away (<= 15 significant digits)
    else:
        assert -unit <= 2 * (left - right) <= unit
    # sign
    neg = x < 0
    if neg and negative_style == 0 and shown != 0:
        assert out.startswith("-")
    if not neg:
        assert "-" not in out and "(" not in out


# ------------------------------------------------------------------------------------------------ percent / dispatch
class FormatRec:
    """a format archive as _custom_format reads it"""

    def __init__(self, **kw):
        self.__dict__.update(kw)

    def HasField(self, name):
        return False


class FormatModel:
    def __init__(self, fmt):
        self.fmt = fmt

    def table_format(self, table_id, key):
        return self.fmt


def number_cell(x, fmt):
    cell = NumberCell.__new__(NumberCell)                    # Cacheable.__new__: real cells carry the memo store
    cell.row = 0
    cell.col = 0
    cell._table_id = 7
    cell._type = CellType.NUMBER
    cell._value = x
    cell._d128 = x
    cell._num_format_id = 1
    cell._model = FormatModel(fmt)
    return cell


def h13_percent(x, negative_style, thousands, places):
    """percentage format through the real Cell._custom_format: the stored value times 100 (a float product that is
    usually NOT the decimal it looks like - 0.29 * 100 is 28.999999999999996) displayed with a % sign; read back it is
    the value times 100 rounded to the decimals shown"""
    del REG[:]
    assume(0 <= negative_style <= 3)
    fmt = FormatRec(format_type=FormatType.PERCENT, negative_style=negative_style, show_thousands_separator=thousands,
                    decimal_places=places)
    out = number_cell(x, fmt)._custom_format()
    assert out.count("%") == 1 and out.replace(")", "").endswith("%")
    text = strip(out)
    parts = text.split(".")
    assert 1 <= len(parts) <= 2 and len(parts[0]) >= 1
    ip = parts[0]
    fp = parts[1] if len(parts) == 2 else ""
    if places != DECIMAL_PLACES_AUTO:
        assert len(fp) == places
    shown = int(ip + fp)
    tup = Decimal(repr(abs(x))).as_tuple()
    D = 0
    for d in tup.digits:
        D = D * 10 + d
    a = -len(fp)
    b = tup.exponent + 2                      # times 100
    lo = min(a, b)
    left = shown * 10 ** (a - lo)
    right = D * 10 ** (b - lo)
    unit = 10 ** (a - lo)
    if places == DECIMAL_PLACES_AUTO:
        assert left == right
    else:
        assert -unit <= 2 * (left - right) <= unit


CALLS13 = []


def rec_decimal(value, fmt, percent=False):
    CALLS13.append(("decimal", value, percent))
    return "D"


def rec_currency(value, fmt):
    CALLS13.append(("currency", value, False))
    return "C"


def rec_base(value, fmt):
    CALLS13.append(("base", value, False))
    return "B"


def rec_fraction(value, fmt):
    CALLS13.append(("fraction", value, False))
    return "F"


def rec_scientific(value, fmt):
    CALLS13.append(("scientific", value, False))
    return "S"


def h13_dispatch(n, ftype):
    """Cell._custom_format hands the stored value to the formatter of its format type - unchanged, except that a
    percentage is multiplied by 100; a rating shows as many stars as the value"""
    del CALLS13[:]
    if ftype == int(FormatType.RATING):
        assume(0 <= n <= 5)
    fmt = FormatRec(format_type=ftype)
    out = number_cell(float(n), fmt)._custom_format()
    want = {int(FormatType.DECIMAL): ("decimal", n, False), int(FormatType.CURRENCY): ("currency", n, False),
            int(FormatType.PERCENT): ("decimal", n * 100, True), int(FormatType.BASE): ("base", n, False),
            int(FormatType.FRACTION): ("fraction", n, False), int(FormatType.SCIENTIFIC): ("scientific", n, False)}
    if ftype in want:
        assert len(CALLS13) == 1
        kind, value, percent = CALLS13[0]
        assert (kind, percent) == (want[ftype][0], want[ftype][2])
        assert value == want[ftype][1]
        assert out == kind[0].upper()
    elif ftype == int(FormatType.RATING):
        assert out == "\u2605" * n
    else:
        assert CALLS13 == []


class FormatTable:
    """model side of Table.set_cell_formatting: format ids -> format archives"""

    def __init__(self, fmts):
        self.fmts = fmts

    def table_format(self, table_id, key):
        return self.fmts[key]


def tag_decimal(value, fmt, percent=False):
    return "D%d%s" % (fmt.tag, "%" if percent else "")


def tag_currency(value, fmt):
    return "C%d" % fmt.tag


def tag_base(value, fmt):
    return "B%d" % fmt.tag


def tag_fraction(value, fmt):
    return "F%d" % fmt.tag


def tag_scientific(value, fmt):
    return "S%d" % fmt.tag


TAGS13 = {int(FormatType.DECIMAL): "D%d", int(FormatType.CURRENCY): "C%d", int(FormatType.PERCENT): "D%d%%",
          int(FormatType.BASE): "B%d", int(FormatType.FRACTION): "F%d", int(FormatType.SCIENTIFIC): "S%d"}


_NUMERIC_T = sorted(TAGS13)


def no_log(*args, **kwargs):
    return None


def h13_reformat(n, t1, t2, t3, reads):
    """one cell object, formatted, read, re-formatted (what Table.set_cell_formatting does to the cell) and read again:
    every read shows the cell under the format it has at that moment"""
    from numbers_parser.constants import FormattingType
    assume(t1 in _NUMERIC_T and t2 in _NUMERIC_T and t3 in _NUMERIC_T)
    fmts = {1: FormatRec(format_type=t1, tag=1), 2: FormatRec(format_type=t2, tag=2), 3: FormatRec(format_type=t3, tag=3)}
    cell = number_cell(float(n), None)
    cell._model = FormatTable(fmts)
    cell._duration_format_id = cell._date_format_id = cell._text_format_id = None
    cell._currency_format_id = cell._bool_format_id = None
    cell._double = cell._seconds = None
    cell._control_id = None
    cell._is_currency = False
    for k, t in ((1, t1), (2, t2), (3, t3)):
        cell._set_formatting(k, FormattingType.NUMBER)
        for _ in range(reads):
            want = "?"
            for code in _NUMERIC_T:
                if t == code:
                    want = TAGS13[code] % k
            assert cell.formatted_value == want


# ------------------------------------------------------------------------------------------------ number bases
def parse_base(text, base):
    """independent reader: digits 0-9 then A-Z, most significant first"""
    v = 0
    for ch in text:
        o = ord(ch)
        assert 48 <= o <= 57 or 65 <= o <= 90
        d = o - 48 if o <= 57 else o - 55
        assert 0 <= d < base
        v = v * base + d
    return v


def check_magnitude_text(body, base, places, magnitude):
    assert len(body) >= 1
    assert parse_base(body, base) == magnitude
    assert len(body) >= places                                   # zero padded to the requested number of places
    if len(body) > places and len(body) > 1:
        assert body[0] != "0"                                    # and not beyond it


def h13_base(n, base, places, minus):
    """integral values in sign-and-magnitude form: the digits read back in the base give |n| exactly"""
    assume(base in (2, 8, 16) or minus)                   # Formatting.__post_init__ refuses the other combinations
    assume(minus or n >= 0)                               # negative values without a minus sign: H13-twos
    fmt = Rec(base=base, base_places=places, base_use_minus_sign=minus)
    out = _format_base(float(n), fmt)
    if n < 0:
        assert out[0] == "-"
        check_magnitude_text(out[1:], base, places, -n)
    else:
        check_magnitude_text(out, base, places, n)


def h13_base_round(n, quarter, base, places):
    """non-integral values are rounded to the nearest integer (either neighbour on an exact tie)"""
    value = n + quarter / 4                             # n + 0.25, n + 0.5, n + 0.75  (exact doubles)
    fmt = Rec(base=base, base_places=places, base_use_minus_sign=True)
    out = _format_base(value, fmt)
    assert len(out) >= 1                                  # something is displayed
    neg = out[0] == "-"
    body = out[1:] if neg else out
    assert len(body) >= 1
    shown = parse_base(body, base)
    if neg:
        shown = -shown
        assert shown != 0
    # |shown - value| <= 1/2  <=>  |4 shown - (4 n + quarter)| <= 2
    diff = 4 * shown - (4 * n + quarter)
    assert -2 <= diff <= 2
    assert len(body) >= places


def h13_twos(n, base):
    """negative values in bases 2, 8, 16 without a minus sign: two's complement in the smallest width >= 32 bits that
    holds the value"""
    assume(n < 0)
    fmt = Rec(base=base, base_places=0, base_use_minus_sign=False)
    out = _format_base(float(n), fmt)
    width = 32
    while n < -(2 ** (width - 1)):
        width += 1
    shown = parse_base(out, base)
    assert shown == 2 ** width + n
    if base == 2:
        assert len(out) == width
    else:
        assert out[0] != "0"


# ------------------------------------------------------------------------------------------------ fractions
def parse_fraction(text, denominator):
    """'W', 'N/D' or 'W N/D' with an optional leading '-'  ->  (negative, numerator over `denominator`, total as
    a count of 1/denominator units)"""
    neg = text[0] == "-"
    body = text[1:] if neg else text
    whole = 0
    num = 0
    if "/" in body:
        parts = body.split(" ")
        assert 1 <= len(parts) <= 2
        if len(parts) == 2:
            whole = int(parts[0])
            assert whole > 0
        frac = parts[-1].split("/")
        assert len(frac) == 2
        num = int(frac[0])
        den = int(frac[1])
        assert den == denominator
        assert 0 < num < den
    else:
        whole = int(body)
    assert not (neg and whole == 0 and num == 0)
    units = whole * denominator + num
    return -units if neg else units


def h13_fraction(m, sixteenths, denominator):
    """fixed denominators: the fraction shown is the value rounded to the nearest 1/denominator (either neighbour on an
    exact tie); the whole part and the sign are kept"""
    value = m + sixteenths / 16                            # every multiple of 1/16 (exact doubles)
    fmt = Rec(fraction_accuracy=denominator)
    out = _format_fraction(value, fmt)
    units = parse_fraction(out, denominator)
    # |units/denominator - value| <= 1/(2 denominator)   <=>   |16 units - denominator (16 m + sixteenths)| <= 8
    diff = 16 * units - denominator * (16 * m + sixteenths)
    assert -8 <= diff <= 8


class FractionContract:
    """Fraction.from_float(v).limit_denominator(M).as_integer_ratio() for values that are multiples of 1/8 and M >= 9:
    the value itself in lowest terms (stdlib contract: a fraction whose denominator is within the limit is returned
    unchanged)"""

    def __init__(self, v):
        self.v = v

    @classmethod
    def from_float(cls, v):
        return cls(v)

    def limit_denominator(self, m):
        assert m >= 9
        return self

    def as_integer_ratio(self):
        e = int(self.v * 8)
        for g in (8, 4, 2):
            if e % g == 0:
                return (e // g, 8 // g)
        return (e, 8)


def h13_fraction_n(m, eighths, digits):
    """'up to N digits' accuracies on values that are multiples of 1/8 (exactly representable with one digit): the
    fraction shown equals the value"""
    value = m + eighths / 8
    fmt = Rec(fraction_accuracy=0x100000000 - digits)
    out = _format_fraction(value, fmt)
    neg = out[0] == "-"
    body = out[1:] if neg else out
    whole = 0
    num = 0
    den = 1
    if "/" in body:
        parts = body.split(" ")
        assert 1 <= len(parts) <= 2
        if len(parts) == 2:
            whole = int(parts[0])
            assert whole > 0
        frac = parts[-1].split("/")
        num = int(frac[0])
        den = int(frac[1])
        assert 0 < num < den and den < 10 ** digits
    else:
        whole = int(body)
    total8 = (whole * den + num) * 8                        # in units of 1/(8 den)
    want8 = (8 * m + eighths) * den
    assert (-total8 if neg else total8) == want8


# ------------------------------------------------------------------------------------------------ scientific
def h13_sci(x, places):
    """d.ddd...E+XX with exactly `places` decimals; read back it is the value rounded to places + 1 significant digits
    (either neighbour on an exact decimal tie)"""
    fmt = Rec(decimal_places=places)
    out = _format_scientific(x, fmt)
    neg = out[0] == "-"
    body = out[1:] if neg else out
    assert neg == (x < 0)
    parts = body.split("E")
    assert len(parts) == 2
    mant, exp = parts
    assert exp[0] in "+-" and len(exp) >= 3
    ex = int(exp[1:])
    if exp[0] == "-":
        ex = -ex
        assert ex != 0
    if places == 0:
        assert len(mant) == 1
        digits = mant
    else:
        assert len(mant) == places + 2 and mant[1] == "."
        digits = mant[0] + mant[2:]
    assert "1" <= digits[0] <= "9"
    shown = int(digits)                                      # shown * 10^(ex - places)
    # the value: D * 10^b with D the integer of its shortest-representation digits (repr/Decimal contract)
    tup = Decimal(repr(abs(x))).as_tuple()
    D = 0
    for d in tup.digits:
        D = D * 10 + d
    # compare  shown * 10^(ex - places)  with  D * 10^b:  half a unit in the last shown place
    a = ex - places
    b = tup.exponent
    e10 = b + len(tup.digits) - 1
    lo = min(a, b)
    left = shown * 10 ** (a - lo)
    right = D * 10 ** (b - lo)
    unit = 10 ** (a - lo)
    assert -unit <= 2 * (left - right) <= unit
    assert ex == e10 or ex == e10 + 1


STUBS = ["sigfig.round replaced by a contract stub: returns digit strings of nondeterministic content (1 or 4 integer digits quick; 1, 3, 4 or 7 thorough; "
         "0 / 2 (0..2 thorough) or the requested number of decimals) with the argument's sign; grouping by three for spacer=','"]
OUT = ["that the digits are the value correctly rounded to the displayed precision (sigfig / Decimal internals)",
       "scientific notation, number bases, fractions, custom number patterns (C-level float formatting)"]
HARNESSES = [
    Harness("H13-decimal", h13_decimal,
            lambda tier: dict(vclass=Cases(list(VALUES)), negative_style=IntDom(), thousands=BoolDom(), places=IntDom(), percent=BoolDom(),
                              ni=Cases([1, 4] if tier == "quick" else [1, 3, 4, 7]), nf=Cases([0, 2] if tier == "quick" else [0, 1, 2])),
            bounds="value sign/integrality classes x 4 negative styles x separator on/off x decimals {auto, 0..3} x percent; digit strings symbolic",
            stubs=STUBS, outside=OUT, patches=[(cellmod, "sigfig", fake_sigfig)]),
    Harness("H13-currency", h13_currency,
            lambda tier: dict(vclass=Cases(list(VALUES)), negative_style=IntDom(), thousands=BoolDom(), places=IntDom(), accounting=BoolDom(),
                              known=BoolDom(), ni=Cases([1, 4] if tier == "quick" else [1, 3, 4, 7]), nf=Cases([0, 2] if tier == "quick" else [0, 1, 2])),
            bounds="as H13-decimal x accounting layout on/off x known/unknown currency code",
            stubs=STUBS, outside=OUT, patches=[(cellmod, "sigfig", fake_sigfig)]),
]
BASE_STUBS = ["format archive = attribute bag"]
FP_NOTE = ("binary64 arithmetic on exactly representable operands (n + k/16, denominator * fraction) is carried out exactly "
           "(results are dyadic rationals below 2^53); round() = round-half-to-even, int() = truncation")
HARNESSES += [
    Harness("H13-base", h13_base,
            lambda tier: dict(n=IntDom(-(2 ** 40), 2 ** 40), base=Cases([2, 8, 10, 16, 36] if tier == "quick" else list(range(2, 37))),
                              places=Cases([0, 4] if tier == "quick" else [0, 1, 4, 8]), minus=Cases([True, False])),
            bounds="every integer |n| <= 2^40; bases {2,8,10,16,36} (quick) / 2..36 (thorough); places {0,4} / {0,1,4,8}; "
                   "with minus sign, and without it for non-negative values",
            stubs=BASE_STUBS, loop_bound=400),
    Harness("H13-base-round", h13_base_round,
            lambda tier: dict(n=IntDom(-(2 ** 20), 2 ** 20), quarter=Cases([1, 2, 3]), base=Cases([2, 10, 16]), places=Cases([0, 3])),
            bounds="every n + 1/4, n + 1/2, n + 3/4 with |n| <= 2^20; bases 2, 10, 16; places 0, 3",
            stubs=BASE_STUBS + [FP_NOTE]),
    Harness("H13-twos", h13_twos,
            lambda tier: dict(n=IntDom(-(10 ** 15) + 1, -1), base=Cases([2, 8, 16])),
            bounds="every negative integer above -10^15; bases 2, 8, 16",
            stubs=BASE_STUBS + ["math.log2 on positive ints below 2^53: per binade [2^k, 2^(k+1)) the result lies in [k, k+1] and its "
                                "position relative to k, k + 1/2, k + 1 is given by integer thresholds found by bisection on the "
                                "running interpreter's math.log2 (monotonicity on integers assumed)"],
            loop_bound=400),
    Harness("H13-fraction", h13_fraction,
            lambda tier: dict(m=IntDom(-(2 ** 20), 2 ** 20), sixteenths=IntDom(-15, 15), denominator=Cases([2, 4, 8, 16, 10, 100])),
            bounds="every multiple of 1/16 with |whole part| <= 2^20 (both signs); the six fixed denominators",
            stubs=BASE_STUBS + [FP_NOTE]),
    Harness("H13-fraction-n", h13_fraction_n,
            lambda tier: dict(m=IntDom(-(2 ** 20), 2 ** 20), eighths=IntDom(-7, 7), digits=Cases([1, 2, 3])),
            bounds="every multiple of 1/8 with |whole part| <= 2^20 (both signs); accuracies of up to 1, 2, 3 digits",
            stubs=BASE_STUBS + [FP_NOTE, "fractions.Fraction.from_float(v).limit_denominator(M).as_integer_ratio() replaced by its "
                                "contract on multiples of 1/8 with M >= 9: the value in lowest terms"],
            outside=["values that are not representable with the allowed denominator (continued-fraction search in the stdlib)"],
            patches=[(cellmod, "Fraction", FractionContract)]),
]


def _decnum(n, e):
    return Harness(f"H13-decimal-num-n{n}-e{e}", h13_decimal_num,
                   lambda tier: dict(x=DecFloatDom(n, e), negative_style=IntDom(), thousands=BoolDom(),
                                     places=Cases([DECIMAL_PLACES_AUTO, 0, 2] if tier == "quick" else [DECIMAL_PLACES_AUTO, 0, 1, 2, 3, 6]),
                                     percent=Cases([False, True])),
                   bounds=f"every float whose shortest decimal form has {n} significant digits (symbolic) at decimal exponent {e}, both signs; "
                          "4 negative styles; separator on/off; decimals {auto,0,2} (quick) / {auto,0,1,2,3,6} (thorough); percent suffix on/off",
                   stubs=["sigfig.round replaced by its numeric contract on decimal digit vectors (15 significant digits in positional "
                          "notation; rounding half away from zero to k decimals; grouping by three) - the contract is compared with the "
                          "real sigfig on every native replay", "repr(float) / Decimal: shortest round-trip digits (contract)"],
                   patches=[(cellmod, "sigfig", numeric_sigfig)])


DECNUM_Q = [(n, e) for n in (1, 3, 5) for e in (-3, -1, 0, 2, 4)]
DECNUM_T = [(n, e) for n in (1, 2, 3, 5, 9, 15) for e in (-7, -3, -2, -1, 0, 1, 2, 3, 4, 6, 14)
            if (n, e) != (15, 14)]          # 15 digits at 10^14 with 6 decimals: 21-digit integers, z3 does not finish in 60 s
HARNESSES += [_decnum(n, e) for n, e in DECNUM_T]


def _percent(n, e):
    return Harness(f"H13-percent-n{n}-e{e}", h13_percent,
                   lambda tier: dict(x=DecFloatDom(n, e), negative_style=IntDom(), thousands=BoolDom(),
                                     places=Cases([DECIMAL_PLACES_AUTO, 0, 2] if tier == "quick" else [DECIMAL_PLACES_AUTO, 0, 1, 2, 3])),
                   bounds=f"every stored value whose shortest decimal form has {n} significant digits (symbolic) at decimal exponent {e}, "
                          "both signs; the product value * 100 carries up to 2 ulp of rounding noise in either direction (symbolic)",
                   stubs=["sigfig.round replaced by its numeric contract (see H13-decimal-num)",
                          "float product x * 100 of a <= 13-digit decimal: the decimal shifted by two places, up to 2 ulp away from "
                          "its nearest double in an unknown direction (two roundings); integrality / truncation / 15-digit rounding "
                          "of such a value are exact functions of the decimal and the noise",
                          "format archive and model = attribute bags"],
                   patches=[(cellmod, "sigfig", numeric_sigfig)])


PCT_Q = [(n, e) for n in (1, 2, 4) for e in (-3, -2, -1, 0, 1)]
PCT_T = [(n, e) for n in (1, 2, 3, 4, 8, 13) for e in (-6, -3, -2, -1, 0, 1, 3, 9)]
HARNESSES += [_percent(n, e) for n, e in PCT_T]
HARNESSES.append(
    Harness("H13-dispatch", h13_dispatch,
            dict(n=IntDom(-(10 ** 9), 10 ** 9), ftype=Cases(sorted(int(t) for t in FormatType))),
            bounds="every FormatType of the real enum; stored value any integer up to 10^9 in magnitude (exactly representable, so the "
                   "percent product is exact)",
            stubs=["the six formatters replaced by recorders; format archive and model = attribute bags"],
            patches=[(cellmod, "_format_decimal", rec_decimal), (cellmod, "_format_currency", rec_currency),
                     (cellmod, "_format_base", rec_base), (cellmod, "_format_fraction", rec_fraction),
                     (cellmod, "_format_scientific", rec_scientific)]))

HARNESSES.append(
    Harness("H13-reformat", h13_reformat,
            dict(n=IntDom(-(10 ** 9), 10 ** 9), t1=IntDom(), t2=IntDom(), t3=IntDom(),
                 reads=Cases([1, 2])),
            bounds="one cell, three successive number formats (every triple of the six numeric format types, symbolic), "
                   "one or two reads of formatted_value after each re-formatting; value any integer up to 10^9 in magnitude",
            stubs=["the formatters replaced by functions naming the format archive they were handed; model = dict of format ids; logging.debug = no-op"],
            patches=[(cellmod, "_format_decimal", tag_decimal), (cellmod, "_format_currency", tag_currency),
                     (cellmod, "_format_base", tag_base), (cellmod, "_format_fraction", tag_fraction),
                     (cellmod, "_format_scientific", tag_scientific), (cellmod, "debug", no_log)]))


def _sci(n, e):
    return Harness(f"H13-sci-n{n}-e{e}", h13_sci, lambda tier: dict(x=DecFloatDom(n, e), places=Cases([0, 1, 2, 5, 14] if tier == "quick" else list(range(0, 15)))),
                   bounds=f"every float whose shortest decimal form has {n} significant digits (symbolic) at decimal exponent {e}, both "
                          "signs; decimal places {0,1,2,5,14} (quick) / 0..14 (thorough)",
                   stubs=["sigfig.round(x, sigfigs=15): identity on values with <= 15 significant digits",
                          "format(x, '.NE'): the correctly rounded decimal of the double = its defining decimal rounded to N+1 digits; on an "
                          "exact decimal tie both directions are explored",
                          "repr(float) / Decimal: shortest round-trip digits (contract)"])


SCI_Q = [(n, e) for n in (1, 2, 3, 7, 15) for e in (-290, -5, -1, 0, 1, 9, 15, 16, 100)]
SCI_T = [(n, e) for n in range(1, 16) for e in (-290, -100, -20, -5, -4, -1, 0, 1, 2, 9, 14, 15, 16, 17, 100, 289)]
HARNESSES += [_sci(n, e) for n, e in SCI_T]
_NEW = ["H13-base", "H13-base-round", "H13-twos", "H13-fraction", "H13-fraction-n"]
TIER_HARNESSES = {"quick": ["H13-decimal", "H13-currency"] + _NEW + [f"H13-sci-n{n}-e{e}" for n, e in SCI_Q] +
                           [f"H13-decimal-num-n{n}-e{e}" for n, e in DECNUM_Q] + [f"H13-percent-n{n}-e{e}" for n, e in PCT_Q] +
                           ["H13-dispatch", "H13-reformat"],
                  "thorough": ["H13-decimal", "H13-currency"] + _NEW + [f"H13-sci-n{n}-e{e}" for n, e in SCI_T] +
                              [f"H13-decimal-num-n{n}-e{e}" for n, e in DECNUM_T] + [f"H13-percent-n{n}-e{e}" for n, e in PCT_T] +
                              ["H13-dispatch", "H13-reformat"]}
# set_cell_formatting files every new format in the table's format list (model.format_archive -> DataLists): a key handed out
# for a new entry must be fresh whatever order the stored list is in - the lookup-list harness is shared with C06
from specs import c06 as _c06   # noqa: E402

HARNESSES += [h for h in _c06.HARNESSES if h.name == "H06a"]
for _t in TIER_HARNESSES.values():
    _t.append("H06a")
PROPERTY = "C13"
