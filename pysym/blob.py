"""Large opaque byte strings with symbolic lengths.

SymBlob(parts): concatenation of parts, each one of
   bytes                     concrete bytes
   SymBytes                  concrete-length vector of symbolic bytes (e.g. a packed length field)
   Rope(base, start, stop)   the slice [start:stop] of a named opaque buffer; start/stop int-like (symbolic)
Only framing arithmetic is decided: len, truthiness, concatenation, slicing at positions the solver can place
relative to part boundaries (inside a Rope anywhere), equality of ropes of the same base. Bytes inside a Rope are
never inspected (Unsupported).
"""
from .values import Sym, SymBytes, Unsupported, as_bytes_list, is_sym, mkbytes


class Rope:
    __slots__ = ("base", "start", "stop")

    def __init__(self, base, start, stop):
        self.base, self.start, self.stop = base, start, stop

    def __repr__(self):
        return f"Rope({self.base}[{self.start}:{self.stop}])"


class SymBlob(Sym):
    __slots__ = ("parts",)

    def __init__(self, parts):
        self.parts = [p for p in parts if not (isinstance(p, (bytes, bytearray)) and len(p) == 0)]

    def __repr__(self):
        return f"SymBlob({self.parts})"


def part_len(eng, p):
    if isinstance(p, Rope):
        return eng.op("Sub", p.stop, p.start)
    if isinstance(p, SymBytes):
        return len(p.bs)
    return len(p)


def blob_len(eng, b):
    n = 0
    for p in b.parts:
        n = eng.op("Add", n, part_len(eng, p))
    return n


def to_blob(x):
    if isinstance(x, SymBlob):
        return x
    if isinstance(x, Rope):
        return SymBlob([x])
    if isinstance(x, (bytes, bytearray, SymBytes)):
        return SymBlob([x])
    raise Unsupported("blob from " + type(x).__name__)


def concat(eng, items):
    parts = []
    for it in items:
        for p in to_blob(it).parts:
            if parts and isinstance(p, Rope) and isinstance(parts[-1], Rope) and parts[-1].base == p.base and \
                    eng.must(eng.cmp("Eq", parts[-1].stop, p.start)):
                parts[-1] = Rope(p.base, parts[-1].start, p.stop)
            elif parts and isinstance(p, (bytes, bytearray)) and isinstance(parts[-1], (bytes, bytearray)):
                parts[-1] = bytes(parts[-1]) + bytes(p)
            else:
                parts.append(p)
    return SymBlob(parts)


def _locate(eng, b, pos):
    """(part index, offset inside the part) for a position; the offset is concrete for concrete-length parts"""
    off = 0
    for i, p in enumerate(b.parts):
        ln = part_len(eng, p)
        if isinstance(p, Rope):
            # inside this rope (or at its start)?
            rel = eng.op("Sub", pos, off)
            if eng.truth(eng.and_(eng.cmp("GtE", rel, 0), eng.cmp("Lt", rel, ln))):
                return i, rel
        else:
            for j in range(ln):
                c = eng.cmp("Eq", pos, eng.op("Add", off, j))
                if c is False:
                    continue
                if eng.truth(c):
                    return i, j
        off = eng.op("Add", off, ln)
    if eng.truth(eng.cmp("GtE", pos, off)):
        return len(b.parts), 0
    raise Unsupported("blob position cannot be placed")


def getitem(eng, b, idx):
    if isinstance(idx, slice):
        if idx.step is not None:
            raise Unsupported("blob slice step")
        total = blob_len(eng, b)
        start = 0 if idx.start is None else idx.start
        stop = total if idx.stop is None else idx.stop
        for v in (start, stop):
            if eng.truth(eng.cmp("Lt", v, 0)):
                raise Unsupported("negative blob slice bound")
        if eng.truth(eng.cmp("Gt", stop, total)):
            stop = total
        if eng.truth(eng.cmp("Gt", start, stop)):
            start = stop
        if eng.truth(eng.cmp("Eq", start, stop)):
            return b""
        i0, o0 = _locate(eng, b, start)
        # stop: locate stop-1 and extend by one
        i1, o1 = _locate(eng, b, eng.op("Sub", stop, 1))
        out = []
        for i in range(i0, i1 + 1):
            p = b.parts[i]
            lo = o0 if i == i0 else 0
            if isinstance(p, Rope):
                hi = eng.op("Add", o1, 1) if i == i1 else part_len(eng, p)
                out.append(Rope(p.base, eng.op("Add", p.start, lo), eng.op("Add", p.start, hi)))
            else:
                seq = as_bytes_list(p)
                hi = (o1 + 1) if i == i1 else len(seq)
                out.append(mkbytes(seq[lo:hi]))
        res = concat(eng, out)
        if len(res.parts) == 1 and not isinstance(res.parts[0], Rope):
            return res.parts[0]
        return res
    i, o = _locate(eng, b, idx)
    if i >= len(b.parts):
        raise IndexError("index out of range")
    p = b.parts[i]
    if isinstance(p, Rope):
        raise Unsupported("inspection of a byte inside an opaque buffer")
    return as_bytes_list(p)[o]


def equal(eng, a, b):
    a, b = to_blob(a), to_blob(b)
    la, lb = blob_len(eng, a), blob_len(eng, b)
    if not eng.truth(eng.cmp("Eq", la, lb)):
        return False
    if eng.truth(eng.cmp("Eq", la, 0)):
        return True
    # drop empty ropes
    def norm(x):
        return [p for p in x.parts if not (isinstance(p, Rope) and eng.must(eng.cmp("Eq", p.start, p.stop)))]
    pa, pb = norm(a), norm(b)
    if len(pa) != len(pb):
        raise Unsupported("blob comparison with different segmentation")
    r = True
    for p, q in zip(pa, pb):
        if isinstance(p, Rope) != isinstance(q, Rope):
            raise Unsupported("blob comparison rope vs bytes")
        if isinstance(p, Rope):
            if p.base != q.base:
                return False
            r = eng.and_(r, eng.and_(eng.cmp("Eq", p.start, q.start), eng.cmp("Eq", p.stop, q.stop)))
        else:
            r = eng.and_(r, eng.compare(__import__("ast").Eq(), p if isinstance(p, SymBytes) else bytes(p),
                                        q if isinstance(q, SymBytes) else bytes(q)))
    return r
