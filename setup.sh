#!/bin/sh
# offline: overlay venv on /venv (which has numbers_parser editable -> /repo/src) + z3 from the wheelhouse
set -e
cd "$(dirname "$0")"
if ! [ -x .venv/bin/python ] || ! .venv/bin/python -c "import z3" 2>/dev/null; then
  rm -rf .venv
  /venv/bin/python -m venv .venv
  echo "import site; site.addsitedir('/venv/lib/python3.12/site-packages')" > .venv/lib/python3.12/site-packages/_venv_overlay.pth
  .venv/bin/pip install -q --no-index --find-links /opt/veriftools/wheels z3-solver jsonschema
fi
.venv/bin/python -c "import z3, numbers_parser; print('setup ok', z3.get_version_string(), numbers_parser.__file__)"
