"""C08 - formula text is a faithful infix rendering: one step of the stack machine, per node kind, through the real
TableFormulas.formula dispatch."""
from numbers_parser.formula import FUNCTION_MAP, Formula, TableFormulas, number_to_str

from pysym.api import BoolDom, BVDom, Cases, Harness, IntDom, StrDom, assume, concretize, cover


class Node:
    def __init__(self, **kw):
        self.__dict__.update(kw)

    def HasField(self, name):
        return name in self.__dict__


class StubModel:
    """formula_ast hands out the node array under test; node_to_ref echoes the reference text stored on the node"""

    def __init__(self, nodes):
        self.nodes = nodes

    def formula_ast(self, table_id):
        return {1: self.nodes}

    def node_to_ref(self, table_id, row, col, node):
        return node.ref

    def table_name(self, table_id):
        return "T"


TYPE = {"ADD": 1, "SUB": 2, "MUL": 3, "DIV": 4, "POW": 5, "CONCAT": 6, "GT": 7, "GE": 8, "LT": 9, "LE": 10, "EQ": 11,
        "NE": 12, "NEG": 13, "PERCENT": 15, "FUNCTION": 16, "NUMBER": 17, "BOOLEAN": 18, "STRING": 19, "EMPTY": 22,
        "TOKEN": 23, "ARRAY": 24, "LIST": 25, "COLON": 29, "APPEND_WS": 32, "PREPEND_WS": 33, "BEGIN_EMBEDDED": 34,
        "END_THUNK": 35, "CELL_REF": 36, "COLON_UIDS": 45, "REF_ERROR_UIDS": 46, "COLON_TRACT": 67}
BINARY = {1: "+", 2: "-", 3: "×", 4: "÷", 5: "^", 6: "&", 7: ">", 8: "≥", 9: "<", 10: "≤", 11: "=", 12: "≠"}
SKIPPED = [32, 33, 34, 35]
VALID_TYPES = list(range(1, 37)) + [45, 46, 48, 52, 53, 54, 63, 64, 65, 66, 67, 68]


def render(nodes):
    return TableFormulas(StubModel(nodes), 7).formula(1, 3, 4)


def ref(s):
    return Node(AST_node_type=36, ref=s)


def h08_operator(a, b, op):
    """[a, b, OP] renders as a OP b with the documented glyph and operand order; unary operators apply to the top"""
    assume(op in VALID_TYPES)            # protobuf never delivers a value outside the enum
    assume(op not in (16, 17, 18, 19, 20, 23, 24, 25, 36, 67))      # node kinds with payload fields: other harnesses
    out = render([ref(a), ref(b), Node(AST_node_type=op)])
    if op in BINARY:
        assert out == a + BINARY[op] + b
    elif op == 13:
        assert out == "-" + b + a        # str(formula) prints a leftover stack entry after the top
    elif op == 15:
        assert out == b + "%" + a
    elif op in (29, 45):
        assert out == a + ":" + b
    elif op in SKIPPED:
        assert out == b + a
    elif op == 46:
        assert out == "#REF!" + b + a
    elif op == 22:
        assert out == "" + b + a
    else:
        # node types the reader does not support are skipped with a warning; nothing is invented
        assert out == b + a
        cover("unsupported-node-type")


def h08_dispatch_binary(a, b, c, op1, op2):
    """two steps: (a op1 b) op2 c - the intermediate result is one operand of the second operator"""
    assume(1 <= op1 <= 12 and 1 <= op2 <= 12)
    op1 = concretize(op1)
    op2 = concretize(op2)
    out = render([ref(a), ref(b), Node(AST_node_type=op1), ref(c), Node(AST_node_type=op2)])
    assert out == a + BINARY[op1] + b + BINARY[op2] + c
    out2 = render([ref(a), ref(b), ref(c), Node(AST_node_type=op1), Node(AST_node_type=op2)])
    assert out2 == a + BINARY[op2] + b + BINARY[op1] + c


def h08_function(a, b, c, fid, nargs):
    """FUNCTION node: name from the real function map for a symbolic id; arguments joined in original order"""
    assume(0 <= nargs <= 3)
    out = render([ref(a), ref(b), ref(c), Node(AST_node_type=16, AST_function_node_numArgs=nargs, AST_function_node_index=fid)])
    name = FUNCTION_MAP[fid] if fid in FUNCTION_MAP else "UNDEFINED!"
    ops = [a, b, c]
    n = concretize(nargs)
    want = name + "(" + ",".join(ops[3 - n:]) + ")" + "".join(reversed(ops[:3 - n]))
    assert out == want


def h08_list_array(a, b, c, d, kind, nargs, rows, cols):
    ops = [a, b, c, d]
    if kind == "list":
        assume(0 <= nargs <= 4)
        out = render([ref(x) for x in ops] + [Node(AST_node_type=25, AST_list_node_numArgs=nargs)])
        n = concretize(nargs)
        assert out == "(" + ",".join(ops[4 - n:]) + ")" + "".join(reversed(ops[:4 - n]))
    else:
        assume(1 <= rows <= 2 and 1 <= cols <= 2)
        out = render([ref(x) for x in ops] + [Node(AST_node_type=24, AST_array_node_numRow=rows, AST_array_node_numCol=cols)])
        r = concretize(rows)
        k = concretize(cols)
        used = ops[4 - r * k:]
        text = ";".join(",".join(used[i * k:(i + 1) * k]) for i in range(r))
        assert out == "{" + text + "}" + "".join(reversed(ops[:4 - r * k]))


def unescape(s):
    assert len(s) >= 2 and s[0] == '"' and s[-1] == '"'
    body = s[1:-1]
    out = ""
    i = 0
    while i < len(body):
        if body[i] == '"':
            assert i + 1 < len(body) and body[i + 1] == '"'      # an inner quote is always doubled
            out += '"'
            i += 2
        else:
            out += body[i]
            i += 1
    return out


def h08_literals(s, flag, token, low):
    out = render([Node(AST_node_type=19, AST_string_node_string=s)])
    assert unescape(out) == s
    if token:
        outb = render([Node(AST_node_type=23, AST_token_node_boolean=flag)])
    else:
        outb = render([Node(AST_node_type=18, AST_boolean_node_boolean=flag)])
    assert outb == ("TRUE" if flag else "FALSE")
    # an integer literal as Numbers stores it: the exact integer in decimal_low, the nearest double in the number field
    outn = render([Node(AST_node_type=17, AST_number_node_decimal_high=0x3040000000000000, AST_number_node_decimal_low=low,
                        AST_number_node_number=float(low))])
    assert outn == str(low)


def h08_range(pa, pb, ca, cb, nparts):
    """COLON node over references that carry the same 0, 1 or 2 qualifying parts: prefix::a:b"""
    if nparts == 0:
        a, b = ca, cb
        want = ca + ":" + cb
    elif nparts == 1:
        a, b = pa + "::" + ca, pa + "::" + cb
        want = pa + "::" + ca + ":" + cb
    else:
        a, b = pb + "::" + pa + "::" + ca, pb + "::" + pa + "::" + cb
        want = pb + "::" + pa + "::" + ca + ":" + cb
    out = render([ref(a), ref(b), Node(AST_node_type=29)])
    assert out == want


def h08_number(x, n, e10):
    """a non-integer number literal is printed positionally and denotes the same decimal (digits and magnitude)"""
    out = render([Node(AST_node_type=17, AST_number_node_decimal_high=0, AST_number_node_decimal_low=0, AST_number_node_number=x)])
    r = repr(x)
    if "e" not in r:
        assert out == r
        return
    mant = r.split("e")[0].replace(".", "")
    if e10 > 0:
        want = mant + "0" * (e10 - (n - 1))
    else:
        want = "0." + "0" * (-e10 - 1) + mant
    assert out == want


NAME = [(65, 90), (97, 122), (32, 32), (48, 57)]          # letters, digits, space: no ':' or '(' in a name part
OPER = None                                                # operands: any Unicode scalar values


def _ops(n):
    return StrDom(n)


HARNESSES = [
    Harness("H08-operator", h08_operator,
            lambda tier: dict(a=StrDom(2), b=StrDom(1), op=IntDom(1, 68)),
            bounds="operands: any 2- and 1-character strings (all Unicode scalar values); node type symbolic over 1..68 (the real enum)",
            stubs=["node = attribute bag; model stub: formula_ast returns the node array, node_to_ref echoes node.ref"],
            outside=["date literals", "model.formula_ast (protobuf traversal)", "agreement with what Numbers displays"]),
    Harness("H08-two-steps", h08_dispatch_binary,
            dict(a=StrDom(1), b=StrDom(1), c=StrDom(1), op1=IntDom(), op2=IntDom()),
            bounds="all 144 pairs of binary operators over 1-character symbolic operands, both association shapes"),
    Harness("H08-function", h08_function,
            lambda tier: dict(a=StrDom(1), b=StrDom(0), c=StrDom(1), fid=IntDom(0, 340 if tier != "quick" else 60), nargs=IntDom()),
            bounds="function id symbolic over 0..60 (quick) / 0..340 (thorough: the whole real map + unknown ids); numArgs 0..3; "
                   "one argument empty"),
    Harness("H08-list-array", h08_list_array,
            dict(a=StrDom(1), b=StrDom(1), c=StrDom(0), d=StrDom(1), kind=Cases(["list", "array"]), nargs=IntDom(), rows=IntDom(), cols=IntDom()),
            bounds="LIST with 0..4 arguments, ARRAY 1..2 x 1..2, operands symbolic (one empty)"),
    Harness("H08-literals", h08_literals,
            lambda tier: dict(s=StrDom(3 if tier == "quick" else 4), flag=BoolDom(), token=BoolDom(), low=IntDom(0, 10 ** 18)),
            bounds="string literal of 3 (quick) / 4 symbolic characters incl. quotes; both boolean node kinds; integer literals 0..10^18",
            outside=["non-integer number literals (number_to_str: see H08-number)"]),
    Harness("H08-range", h08_range,
            dict(pa=StrDom(2, NAME), pb=StrDom(1, NAME), ca=StrDom(2, NAME), cb=StrDom(2, NAME), nparts=Cases([0, 1, 2])),
            bounds="range end points with 0, 1 (table) or 2 (sheet, table) qualifying parts; names/cells 1-2 symbolic alphanumeric characters"),
]
def _num(n, e):
    from pysym.api import DecFloatDom
    return Harness(f"H08-number-n{n}-e{e}", h08_number, dict(x=DecFloatDom(n, e, signed=False), n=Cases([n]), e10=Cases([e])),
                   bounds=f"every positive float whose shortest decimal form has {n} significant digits (symbolic) and exponent {e}",
                   stubs=["repr(float): CPython's shortest-digits 'r' format on the decimal-defined float"])


_NUMS = [(n, e) for n in (1, 2, 5) for e in (-7, -5, -4, 0, 3, 15, 16, 17, 21)]
HARNESSES += [_num(n, e) for n, e in _NUMS]
PROPERTY = "C08"
