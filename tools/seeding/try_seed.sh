#!/bin/sh
# usage: try_seed.sh <PROP> <seed_dir>  : apply patch to /repo, run check, undo (evidence file preserved)
P=$1; D=$2
cp /verif/evidence/$P.json /tmp/evidence_$P.bak 2>/dev/null
cd /repo && git apply $D/patch.diff || exit 9
cd /verif && ./check $P 2>&1 | grep -a "VIOLATION\|INCONCLUSIVE\|HARNESS\|harness=\|exit=" | cut -c1-260 | head -8
git -C /repo checkout -- . ; git -C /repo status --short | head -2
cp /tmp/evidence_$P.bak /verif/evidence/$P.json 2>/dev/null
