"""C19 - sheet and table collections: lookup by index / name, membership."""
from numbers_parser.containers import ItemsList

from pysym.api import BoolDom, Cases, Harness, IntDom, StrDom, assume


class Item:
    def __init__(self, name):
        self.name = name


def make_list(names):
    il = object.__new__(ItemsList)
    il._item_name = "item"
    il._items = [Item(x) for x in names]
    return il


def h19a_index(key, n):
    """lookup by any integer index agrees with iteration order; IndexError outside [-n, n)"""
    il = make_list(["a", "b", "c", "d"][:n])
    items = list(il._items)
    try:
        r = il[key]
    except IndexError:
        assert key >= n or key < -n
        return
    assert -n <= key < n
    if key >= 0:
        assert r is items[key]
    else:
        assert r is items[n + key]
    assert len(il) == n


def h19b_name(n0, n1, n2, q):
    """lookup by name returns the first item with exactly that name; KeyError if none; membership ignores case"""
    names = [n0, n1, n2]
    il = make_list(names)
    try:
        r = il[q]
    except KeyError:
        assert q != n0 and q != n1 and q != n2
        found = False
    else:
        found = True
        assert r.name == q
        if r is il._items[1]:
            assert n0 != q
        if r is il._items[2]:
            assert n0 != q and n1 != q
    inside = q in il
    if found:
        assert inside
    ql = q.lower()
    assert inside == (ql == n0.lower() or ql == n1.lower() or ql == n2.lower())


ASCII2 = [(0x20, 0x7E)]

HARNESSES = [
    Harness("H19a", h19a_index, dict(key=IntDom(), n=Cases([0, 1, 2, 3, 4])),
            bounds="key: every Python int (unbounded Int); n = 0..4 items",
            outside=["names and order after save/reopen (protobuf/zip I/O)"]),
    Harness("H19b", h19b_name,
            lambda tier: dict(n0=StrDom(1 if tier == "quick" else 2, ASCII2), n1=StrDom(1 if tier == "quick" else 2, ASCII2),
                              n2=StrDom(1, ASCII2), q=StrDom(1 if tier == "quick" else 2, ASCII2)),
            bounds="3 items; names and query of 1 (quick) / 2 (thorough) printable-ASCII characters, all symbolic",
            outside=["names longer than 2 characters; non-ASCII names (case mapping tables)"]),
]
PROPERTY = "C19"
