#!/bin/sh
# usage: verify_seed.sh <id> <seed_dir>
ID=$1; D=$2; WT=/tmp/sv_$ID
cd /repo && git worktree add -q --detach $WT HEAD || exit 9
cd $WT && git apply $D/patch.diff || { echo "APPLY FAILED"; exit 9; }
echo "--- demo on unmodified (/repo/src):"; (cd /tmp && PYTHONPATH=/repo/src timeout 600 /venv/bin/python $D/demo.py >/dev/null 2>&1; echo "exit=$?")
echo "--- demo with change:"; (cd /tmp && PYTHONPATH=$WT/src timeout 600 /venv/bin/python $D/demo.py >/dev/null 2>&1; echo "exit=$?")
echo "--- suite with change:"
cd $WT && PYTHONPATH=$WT/src /venv/bin/python -m pytest -q -p no:cacheprovider --no-cov -n 6 --timeout=900 tests/ 2>&1 | grep -a "^FAILED\|passed\|failed" | sed 's/ - .*//' | sort > /tmp/sv_$ID.failed
grep -a "passed" /tmp/sv_$ID.failed
grep -a "^FAILED" /tmp/sv_$ID.failed | grep -v "subprocess\]\|test_parse_formulas\|test_issue_50" || echo "no unexpected failures"
cd /repo && git worktree remove --force $WT
