"""C10 - A1-notation conversion functions are mutually inverse bijections."""
from numbers_parser.tokenizer import parse_numbers_range
from numbers_parser.xrefs import xl_cell_to_rowcol, xl_col_to_name, xl_col_to_offset, xl_range, xl_rowcol_to_cell

from pysym.api import BoolDom, BVDom, Cases, Harness, IntDom, StrDom, assume, cover

MAX_ROW = 1000000
MAX_COL = 18277  # 'ZZZ'


def h10a_roundtrip(row, col, ra, ca):
    s = xl_rowcol_to_cell(row, col, ra, ca)
    assert xl_cell_to_rowcol(s) == (row, col)
    # '$' markers appear exactly as asked, and the unmarked text is the same reference
    plain = xl_rowcol_to_cell(row, col)
    assert s.replace("$", "") == plain
    assert s.count("$") == (1 if ra else 0) + (1 if ca else 0)
    assert s.startswith("$") == ca


def _value(name):
    v = 0
    for ch in name:
        assert "A" <= ch <= "Z"
        v = v * 26 + (ord(ch) - 64)
    return v


def h10b_naming(a, b):
    na = xl_col_to_name(a)
    nb = xl_col_to_name(b)
    assert 1 <= len(na) <= 3
    # bijective base-26 numbering: the name's value is the column number (no gaps / repeats)
    assert _value(na) == a + 1
    assert _value(nb) == b + 1
    assert xl_col_to_offset(na) == a
    assert xl_col_to_name(a, True) == "$" + na
    # strictly order preserving (shortlex)
    if a < b:
        assert len(na) < len(nb) or (len(na) == len(nb) and na < nb)
    if a == b:
        assert na == nb
    else:
        assert na != nb


def h10c_range(r1, c1, r2, c2):
    s = xl_range(r1, c1, r2, c2)
    same = r1 == r2 and c1 == c2
    assert (":" not in s) == same
    if same:
        assert s == xl_rowcol_to_cell(r1, c1)
    else:
        parts = s.split(":")
        assert len(parts) == 2
        assert xl_cell_to_rowcol(parts[0]) == (r1, c1)
        assert xl_cell_to_rowcol(parts[1]) == (r2, c2)


def h10d_negative(row, col, which):
    assume(row < 0 or col < 0)
    try:
        if which == 0:
            xl_rowcol_to_cell(row, col)
        elif which == 1:
            assume(col < 0)
            xl_col_to_name(col)
        elif which == 2:
            xl_range(row, col, 5, 5)
        else:
            xl_range(5, 5, row, col)
    except IndexError:
        cover("rejected")
        return
    assert False, "negative coordinate produced a name"


class _Cache:
    def refresh(self):
        pass


class _Model:
    name_ref_cache = _Cache()

    def table_names(self):
        return ["T"]

    def table_id_to_sheet_id(self, table_id):
        return 1


def h10e_second_decoder(name, row):
    """tokenizer's col_to_index (parse_numbers_range) agrees with xl_col_to_offset / xl_cell_to_rowcol"""
    ref = name + str(row + 1)
    r = parse_numbers_range(_Model(), ref)
    assert r.col_start == xl_col_to_offset(name)
    assert (r.row_start, r.col_start) == xl_cell_to_rowcol(ref)
    assert r.row_start == row
    r2 = parse_numbers_range(_Model(), "T::" + name + ":" + name)
    assert r2.col_start == xl_col_to_offset(name) and r2.col_end == r2.col_start


AZ = [(65, 90)]


def _rows(tier):
    return IntDom(0, MAX_ROW)


HARNESSES = [
    Harness("H10a", h10a_roundtrip,
            lambda tier: dict(row=_rows(tier), col=BVDom(16, lo=0, hi=MAX_COL), ra=BoolDom(), ca=BoolDom()),
            bounds="row in [0, 1 000 000], col in [0, 18 277] (all names up to 'ZZZ'), both '$' flags; symbolic ranges",
            stubs=["int(a/26): lemma cut forall a<=2^15 trunc(fp(a)/26.0)==a div 26 (QF_BVFP, discharged per run)",
                   "re: alphabet-partition model of range_parts/col_parts"]),
    Harness("H10b", h10b_naming, dict(a=BVDom(16, lo=0, hi=MAX_COL), b=BVDom(16, lo=0, hi=MAX_COL)),
            bounds="two symbolic columns in [0, 18 277]"),
    Harness("H10c", h10c_range,
            lambda tier: dict(r1=BVDom(21, lo=0, hi=999 if tier == "quick" else 9999), c1=BVDom(16, lo=0, hi=MAX_COL if tier != "quick" else 701),
                              r2=BVDom(21, lo=0, hi=999 if tier == "quick" else 9999), c2=BVDom(16, lo=0, hi=MAX_COL if tier != "quick" else 701)),
            bounds="corners: rows < 1000 / cols <= 701 ('ZZ') quick; rows < 10000 / all columns to 'ZZZ' thorough"),
    Harness("H10d", h10d_negative, dict(row=IntDom(), col=IntDom(), which=Cases([0, 1, 2, 3])),
            bounds="row, col: every Python int with at least one negative (unbounded Int)"),
    Harness("H10e", h10e_second_decoder,
            lambda tier: dict(name=Cases([None]), row=BVDom(21, lo=0, hi=MAX_ROW)) and
            dict(name=StrDom(3, AZ), row=BVDom(21, lo=0, hi=99 if tier == "quick" else MAX_ROW)),
            bounds="3-letter names over A-Z (all symbolic) plus 1,2-letter variants below; rows <= 99 quick / 10^6 thorough",
            stubs=["model stub: table_names/table_id_to_sheet_id/name_ref_cache (not inspected by the decoder)"]),
    Harness("H10e2", h10e_second_decoder, dict(name=StrDom(2, AZ), row=BVDom(21, lo=0, hi=99))),
    Harness("H10e1", h10e_second_decoder, dict(name=StrDom(1, AZ), row=BVDom(21, lo=0, hi=99))),
]
PROPERTY = "C10"
ASSUMPTIONS = ["columns beyond 'ZZZ' (18 277) and rows beyond 1 000 000 are outside the claim"]
