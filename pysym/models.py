"""Models of builtins / stdlib calls on symbolic values. Each model is part of the trusted base."""
import ast
import math
import re as _re
import struct

import z3

from . import api
from .values import (SymDT, SymTD, F64, LazyStr, Opaque, PathAbort, Sym, SymBool, SymBV, SymBytes, SymFloat, SymInt, SymStr,
                     Unsupported, as_bytes_list, chars, deep_sym, is_sym, mkbool, mkbv, mkbytes, mkint, mkstr, zbool,
                     zint)

PatternType = type(_re.compile(""))


def m_len(eng, x):
    return eng.length(x)


def m_isinstance(eng, x, t):
    def sub(native, t):
        # the native type's own subclass relation decides (abstract base classes included: isinstance("x", Sequence))
        try:
            return issubclass(native, t)
        except TypeError:
            return isinstance(native(), t)

    def one(t):
        if isinstance(x, (SymBV, SymInt)):
            return sub(int, t)
        if isinstance(x, SymBool):
            return sub(bool, t)
        if isinstance(x, SymFloat):
            return sub(float, t)
        if isinstance(x, (SymStr, LazyStr)):
            return sub(str, t)
        if isinstance(x, SymBytes):
            return sub(bytearray if x.mutable else bytes, t)
        if isinstance(x, Opaque):
            return t is object
        if isinstance(x, SymDT):
            import datetime
            return issubclass(datetime.datetime, t)
        if isinstance(x, SymTD):
            import datetime
            return issubclass(datetime.timedelta, t)
        return isinstance(x, t)
    if isinstance(t, tuple):
        return any(one(k) for k in t)
    return one(t)


def m_type(eng, x, *rest):
    if rest:
        return type(x, *rest)
    if isinstance(x, (SymBV, SymInt)):
        return int
    if isinstance(x, SymBool):
        return bool
    if isinstance(x, SymFloat):
        return float
    if isinstance(x, (SymStr, LazyStr)):
        return str
    if isinstance(x, SymBytes):
        return bytearray if x.mutable else bytes
    if isinstance(x, SymDT):
        import datetime
        return datetime.datetime
    if isinstance(x, SymTD):
        import datetime
        return datetime.timedelta
    return type(x)


def m_int(eng, x=0, base=10):
    if isinstance(x, LazyStr):
        x = eng.force_str(x)
    if isinstance(x, (SymInt, SymBV)):
        return x
    if isinstance(x, SymFloat):
        return eng.float_to_int(x)
    if isinstance(x, SymBool):
        return mkint(zint(x))
    if isinstance(x, SymStr):
        return str_to_int(eng, x, base)
    if isinstance(x, str):
        return int(x, base)
    return int(x)


def str_to_int(eng, x, base=10):
    """int(str, base) for ASCII digit/letter strings with optional sign; other accepted spellings (whitespace,
    underscores, non-ASCII digits, 0x prefixes) are detected and reported as unsupported rather than mis-modelled"""
    if is_sym(base):
        base = eng.concretize_int(base, "int() base")
    if not 2 <= base <= 36:
        raise Unsupported("int() base %r" % (base,))
    cs = list(x.cs)
    if not cs:
        raise ValueError("invalid literal for int() with base %d: ''" % base)
    neg = False
    if eng.truth(eng.cmp("Eq", cs[0], 45)):
        neg = True
        cs = cs[1:]
    elif eng.truth(eng.cmp("Eq", cs[0], 43)):
        cs = cs[1:]
    if not cs:
        raise ValueError("invalid literal for int()")
    t = 0
    for c in cs:
        if base <= 10:
            isd = eng.and_(eng.cmp("GtE", c, 48), eng.cmp("LtE", c, 47 + base))
            dv = eng.op("Sub", c, 48)
        else:
            nl = base - 10
            zc = zint(c)
            isd = mkbool(z3.Or(z3.And(zc >= 48, zc <= 57), z3.And(zc >= 65, zc < 65 + nl), z3.And(zc >= 97, zc < 97 + nl)))
            dv = mkint(z3.If(zc <= 57, zc - 48, z3.If(zc <= 90, zc - 55, zc - 87)))
            if isinstance(dv, SymInt):
                dv = eng.define_var("dv", dv.t, -48, 0x10FFFF)
        if not eng.truth(isd):
            # anything python's int() might still accept -> outside the model
            other_ok = z3.Or(zint(c) == 95, zint(c) == 32, z3.And(zint(c) >= 9, zint(c) <= 13), zint(c) > 127,
                             z3.And(zint(c) >= 28, zint(c) <= 31))
            if base in (2, 8, 16):
                other_ok = z3.Or(other_ok, zint(c) == 120, zint(c) == 88, zint(c) == 111, zint(c) == 79, zint(c) == 98, zint(c) == 66)
            if eng.decide(other_ok):
                raise Unsupported("int() of string with underscore/space/prefix/non-ASCII character")
            raise ValueError("invalid literal for int() with base %d" % base)
        t = eng.op("Add", eng.op("Mult", t, base), dv)
    return eng.neg(t) if neg else t


def m_float(eng, x=0.0):
    if isinstance(x, LazyStr):
        x = eng.force_str(x)
    if isinstance(x, SymStr):
        return float_of_str(eng, x)
    if isinstance(x, (SymInt, SymBV, SymBool)):
        return eng.as_float(x)
    if isinstance(x, SymFloat):
        return x
    return float(x)


def float_of_str(eng, x):
    """outcome-class model of float(str): ValueError, or an arbitrary float (value uninterpreted)"""
    tag = "float()#%d" % eng.fresh_id()
    ok = nondet_bool_sym(eng, tag + ":ok", model=True)
    if eng.truth(ok):
        v = z3.FP(tag + ":val", F64)
        return SymFloat(v)
    raise ValueError("could not convert string to float")


_FLOAT_CLASSES = None


def _float_classes():
    """partition of the alphabet under which float(str)'s outcome class (ValueError / finite / inf / nan, and the sign)
    is invariant for short strings: (ranges, representative). Computed from the running interpreter."""
    global _FLOAT_CLASSES
    if _FLOAT_CLASSES is None:
        from .strmodels import _ranges_where
        single = {}
        for chs in ("+", "-", ".", "_", "eE", "nN", "aA", "iI", "fF", "tT", "yY"):
            single[chs] = ([(ord(c), ord(c)) for c in chs], chs[0])
        taken = set(ord(c) for k in single for c in k)
        classes = list(single.values())
        classes.append(([(48, 57)], "7"))
        classes.append((_ranges_where(lambda ch: ch.isdecimal() and ord(ch) > 127), "\u0663"))
        def strips(ch):
            # white space as float() sees it (str.isspace() is true for U+001C..U+001F, float() does not strip them)
            if not ch.isspace():
                return False
            try:
                float(ch + "1")
                return True
            except ValueError:
                return False
        classes.append((_ranges_where(strips), " "))
        _FLOAT_CLASSES = classes
    return _FLOAT_CLASSES


def m_float_precise(eng, x=0.0):
    """float(str) with the outcome decided exactly: every symbolic character is forked into its class (sign, point,
    underscore, exponent letter, the letters of inf/infinity/nan, ASCII digit, other Unicode decimal digit, white
    space, anything else) and the REAL float() runs on a class-representative string. Valid for strings too short to
    overflow or underflow through their exponent (checked). The value of a finite result is an uninterpreted double."""
    if isinstance(x, LazyStr):
        x = eng.force_str(x)
    if not isinstance(x, SymStr):
        return m_float(eng, x)
    from .strmodels import in_ranges
    rep = []
    for c in x.cs:
        if isinstance(c, int):
            rep.append(chr(c))
            continue
        for ranges, r in _float_classes():
            if eng.truth(in_ranges(eng, c, ranges)):
                rep.append(r)
                break
        else:
            rep.append("x")
    text = "".join(rep)
    low = text.lower()
    if "e" in low and len(text.replace("_", "")) > 4 and any(ch.isdigit() for ch in low.split("e")[-1]):
        raise Unsupported("float(str): exponent long enough to overflow - outcome depends on the digit values")
    try:
        v = float(text)
    except ValueError:
        raise ValueError("could not convert string to float: " + repr(text)) from None
    tag = "float()#%d" % eng.fresh_id()
    fv = z3.FP(tag + ":val", F64)
    if v != v:
        eng.add_fact(z3.fpIsNaN(fv))
    elif v in (float("inf"), float("-inf")):
        eng.add_fact(z3.And(z3.fpIsInf(fv), z3.fpIsNegative(fv) if v < 0 else z3.fpIsPositive(fv)))
    else:
        eng.add_fact(z3.Not(z3.Or(z3.fpIsNaN(fv), z3.fpIsInf(fv))))
    return SymFloat(fv)


def m_bool(eng, x=False):
    if isinstance(x, SymBool):
        return x
    if isinstance(x, (SymInt, SymBV)):
        return eng.cmp("NotEq", x, 0)
    return eng.truth(x)


def m_str(eng, x="", *a):
    if a:
        if deep_sym(x):
            raise Unsupported("str(bytes, encoding) symbolic")
        return str(x, *a)
    return eng.to_str(x)


def m_repr(eng, x):
    return eng.to_str(x, conv=114)


def m_chr(eng, x):
    if isinstance(x, (SymInt, SymBV)):
        if eng.truth(eng.or_(eng.cmp("Lt", x, 0), eng.cmp("Gt", x, 0x10FFFF))):
            raise ValueError("chr() arg not in range(0x110000)")
        return SymStr([x])
    return chr(x)


def m_ord(eng, x):
    if isinstance(x, LazyStr):
        x = eng.force_str(x)
    if isinstance(x, SymStr):
        if len(x.cs) != 1:
            raise TypeError("ord() expected a character")
        return x.cs[0]
    return ord(x)


def m_range(eng, *a):
    if any(isinstance(x, SymFloat) for x in a):
        raise TypeError("'float' object cannot be interpreted as an integer")
    if any(is_sym(x) for x in a):
        from .engine import SymRange
        if len(a) == 1:
            return SymRange(0, a[0])
        if len(a) == 2:
            return SymRange(a[0], a[1])
        step = eng.concretize_int(a[2], "range step")
        if step == 0:
            raise ValueError("range() arg 3 must not be zero")
        return SymRange(a[0], a[1], step)
    return range(*a)


def m_reversed(eng, x):
    return list(reversed(list(eng.iterate(x))))


def m_enumerate(eng, x, start=0):
    out = []
    i = start
    for it in eng.iterate(x):
        out.append((i, it))
        i = eng.op("Add", i, 1)
    return out


def m_zip(eng, *its, strict=False):
    ls = [list(eng.iterate(i)) for i in its]
    if strict and len(set(len(l) for l in ls)) > 1:
        raise ValueError("zip() arguments have different lengths")
    return list(zip(*ls))


def m_bytearray(eng, x=0, *a):
    if isinstance(x, (SymInt, SymBV)):
        x = eng.concretize_int(x, "bytearray size")
    if isinstance(x, int):
        return SymBytes([0] * x, mutable=True)
    if isinstance(x, (list, tuple)):
        return SymBytes(list(x), mutable=True)
    return SymBytes(list(as_bytes_list(x)), mutable=True)


def m_bytes(eng, x=b"", *a):
    if type(x).__name__ == "SymBlob":
        return x
    if isinstance(x, int):
        return bytes(x)
    if isinstance(x, (list, tuple)):
        for b in x:
            if is_sym(b) and eng.truth(eng.or_(eng.cmp("Lt", b, 0), eng.cmp("Gt", b, 255))):
                raise ValueError("bytes must be in range(0, 256)")
        return mkbytes(list(x))
    if isinstance(x, str):
        return bytes(x, *a)
    return mkbytes(list(as_bytes_list(x)))


def m_abs(eng, x):
    if isinstance(x, (SymInt, SymBV)):
        return eng.neg(x) if eng.truth(eng.cmp("Lt", x, 0)) else x
    if isinstance(x, SymFloat):
        if x.ival is not None:
            return SymFloat(ival=m_abs(eng, x.ival))
        if x.t is None:
            return eng.neg(x) if eng.truth(eng.cmp("Lt", x, 0)) else x
        return SymFloat(z3.fpAbs(eng.to_fp(x)))
    return abs(x)


def _fold(eng, items, op):
    best = None
    for it in items:
        if best is None:
            best = it
        elif eng.truth(eng.cmp(op, it, best)):
            best = it
    return best


def m_max(eng, *a, **kw):
    key = kw.pop("key", None)
    items = list(eng.iterate(a[0])) if len(a) == 1 else list(a)
    if not items:
        if "default" in kw:
            return kw["default"]
        raise ValueError("max() iterable argument is empty")
    if key is not None:
        ks = [eng.call(key, [i], {}) for i in items]
        bi = 0
        for i in range(1, len(items)):
            if eng.truth(eng.cmp("Gt", ks[i], ks[bi])):
                bi = i
        return items[bi]
    if not deep_sym(items):
        return max(items)
    return _fold(eng, items, "Gt")


def m_min(eng, *a, **kw):
    key = kw.pop("key", None)
    items = list(eng.iterate(a[0])) if len(a) == 1 else list(a)
    if not items:
        if "default" in kw:
            return kw["default"]
        raise ValueError("min() iterable argument is empty")
    if key is not None:
        ks = [eng.call(key, [i], {}) for i in items]
        bi = 0
        for i in range(1, len(items)):
            if eng.truth(eng.cmp("Lt", ks[i], ks[bi])):
                bi = i
        return items[bi]
    if not deep_sym(items):
        return min(items)
    return _fold(eng, items, "Lt")


def m_sum(eng, it, start=0):
    t = start
    for x in eng.iterate(it):
        t = eng.op("Add", t, x)
    return t


def m_any(eng, it):
    for x in eng.iterate(it):
        if eng.truth(x):
            return True
    return False


def m_all(eng, it):
    for x in eng.iterate(it):
        if not eng.truth(x):
            return False
    return True


m_any._lazy_ok = True
m_all._lazy_ok = True


def m_sorted(eng, it, key=None, reverse=False):
    items = list(eng.iterate(it))
    ks = [eng.call(key, [i], {}) for i in items] if key is not None else items
    if not deep_sym(ks):
        order = sorted(range(len(items)), key=lambda i: ks[i], reverse=reverse)
        return [items[i] for i in order]
    # insertion sort with symbolic comparisons (stable)
    order = []
    for i in range(len(items)):
        j = len(order)
        while j > 0 and eng.truth(eng.cmp("Gt" if reverse else "Lt", ks[i], ks[order[j - 1]])):
            j -= 1
        order.insert(j, i)
    return [items[i] for i in order]


def m_round(eng, x, nd=None):
    if isinstance(x, (SymInt, SymBV)):
        return x
    if isinstance(x, SymFloat):
        if x.ival is not None:
            return x.ival if nd is None else x
        if nd is None and x.t is None:
            return eng.real_to_int(eng.real_of(x), "round")
        if nd is None:
            t = z3.fpRoundToIntegral(z3.RNE(), eng.to_fp(x))
            return eng.float_to_int(SymFloat(t))
        if x.quot is not None and isinstance(x.quot[1], int) and not is_sym(nd) and isinstance(nd, int) and 0 <= nd <= 15 \
                and 10 ** nd % x.quot[1] == 0 and eng.must(eng.and_(eng.cmp("LtE", x.quot[0], 2 ** 40), eng.cmp("GtE", x.quot[0], -(2 ** 40)))):
            # a / k with k | 10^nd has at most nd decimals: rounding to nd decimals gives the same double back
            return x
        raise Unsupported("round(float, ndigits) symbolic")
    if is_sym(nd):
        nd = eng.concretize_int(nd, "round ndigits")
    return round(x, nd) if nd is not None else round(x)


def m_divmod(eng, a, b):
    return (eng.op("FloorDiv", a, b), eng.op("Mod", a, b))


def m_pow(eng, a, b, *m):
    if m:
        raise Unsupported("3-arg pow")
    return eng.op("Pow", a, b)


def m_bin(eng, x):
    if isinstance(x, (SymInt, SymBV)):
        return digits_in_base(eng, x, 2, prefix="0b")
    return bin(x)


def m_hex(eng, x):
    if isinstance(x, (SymInt, SymBV)):
        return digits_in_base(eng, x, 16, prefix="0x")
    return hex(x)


def m_oct(eng, x):
    if isinstance(x, (SymInt, SymBV)):
        return digits_in_base(eng, x, 8, prefix="0o")
    return oct(x)


def digits_in_base(eng, x, base, prefix="", max_digits=130):
    neg = eng.truth(eng.cmp("Lt", x, 0))
    a = eng.neg(x) if neg else x
    nd = 1
    while eng.truth(eng.cmp("GtE", a, base ** nd)):
        nd += 1
        if nd > max_digits:
            raise Unsupported("number too long")
    out = []
    rest = a
    for i in range(nd):
        d = rest if i == nd - 1 else eng.op("Mod", rest, base)
        if i < nd - 1:
            rest = eng.op("FloorDiv", rest, base)
        if base <= 10:
            out.append(eng.op("Add", d, 48))
        elif isinstance(d, SymInt):
            out.append(eng.define_var("hx", z3.If(d.t < 10, d.t + 48, d.t + 87), 48, 87 + base - 1))
        else:
            if is_sym(d):
                d = eng.concretize_int(d, "digit")
            out.append(ord("0123456789abcdefghijklmnopqrstuvwxyz"[d]))
    return mkstr(([45] if neg else []) + [ord(c) for c in prefix] + list(reversed(out)))


def m_getattr(eng, obj, name, *d):
    try:
        return eng.getattr(obj, name)
    except AttributeError:
        if d:
            return d[0]
        raise


def m_setattr(eng, obj, name, v):
    eng.setattr(obj, name, v)


def m_hasattr(eng, obj, name):
    try:
        eng.getattr(obj, name)
        return True
    except AttributeError:
        return False


def m_tuple(eng, x=()):
    return tuple(eng.iterate(x))


def m_list(eng, x=()):
    return list(eng.iterate(x))


def m_dict(eng, *a, **kw):
    d = {}
    if a:
        src = a[0]
        if isinstance(src, dict):
            if id(src) in eng.symdicts:
                raise Unsupported("dict(copy of symbolic-key dict)")
            d.update(src)
        else:
            for k, v in eng.iterate(src):
                eng.setitem(d, k, v)
    for k, v in kw.items():
        d[k] = v
    return d


def m_set(eng, x=()):
    items = list(eng.iterate(x))
    if deep_sym(items):
        st = set()
        for it in items:
            eng.set_add(st, it)          # equality of symbolic items decided (forking) as they are added
        return st
    return set(items)


def m_iter(eng, x):
    return iter(list(eng.iterate(x)))


def m_next(eng, it, *d):
    if isinstance(it, list):
        raise TypeError("'list' object is not an iterator")
    try:
        return next(it)
    except StopIteration:
        if d:
            return d[0]
        raise


def m_id(eng, x):
    return id(x)


def m_hash(eng, x):
    if deep_sym(x):
        raise Unsupported("hash of symbolic value")
    return hash(x)


def m_print(eng, *a, **k):
    return None


def m_format(eng, x, spec=""):
    return eng.format_value(x, spec)


def m_map(eng, fn, *its):
    ls = [list(eng.iterate(i)) for i in its]
    return [eng.call(fn, list(args), {}) for args in zip(*ls)]


def m_filter(eng, fn, it):
    return [x for x in eng.iterate(it) if eng.truth(eng.call(fn, [x], {}) if fn is not None else x)]


def m_callable(eng, x):
    from .engine import Closure
    return isinstance(x, Closure) or callable(x)


# ------------------------------------------------------------------------------- struct
def _byte_term(b):
    if isinstance(b, SymBV):
        if b.w == 8:
            return b.t
        return z3.Extract(7, 0, b.t) if b.w > 8 else z3.ZeroExt(8 - b.w, b.t)
    if isinstance(b, SymInt):
        return z3.Int2BV(b.t, 8)
    return z3.BitVecVal(b, 8)


STRUCT_INT = {"i": (4, True), "I": (4, False), "h": (2, True), "H": (2, False), "b": (1, True), "B": (1, False),
              "q": (8, True), "Q": (8, False), "l": (4, True), "L": (4, False)}


def _parse_fmt(fmt):
    if isinstance(fmt, (SymStr, LazyStr)):
        raise Unsupported("symbolic struct format")
    if not fmt or fmt[0] != "<":
        raise Unsupported("struct format without '<': " + fmt)
    items = []
    num = ""
    for ch in fmt[1:]:
        if ch.isdigit():
            num += ch
            continue
        n = int(num) if num else 1
        num = ""
        if ch in STRUCT_INT or ch == "d" or ch == "f":
            items.extend([ch] * n)
        elif ch == "x":
            items.extend(["x"] * n)
        else:
            raise Unsupported("struct format char " + ch)
    return items


def _size(ch):
    if ch in STRUCT_INT:
        return STRUCT_INT[ch][0]
    return {"d": 8, "f": 4, "x": 1}[ch]


def m_unpack(eng, fmt, buf):
    if isinstance(buf, (bytes, bytearray, memoryview)):
        return struct.unpack(fmt, buf)
    items = _parse_fmt(fmt)
    bs = as_bytes_list(buf)
    total = sum(_size(c) for c in items)
    if len(bs) != total:
        raise struct.error("unpack requires a buffer of %d bytes" % total)
    out = []
    off = 0
    for ch in items:
        n = _size(ch)
        part = bs[off: off + n]
        off += n
        if ch == "x":
            continue
        if not any(is_sym(b) for b in part):
            out.append(struct.unpack("<" + ch, bytes(part))[0])
            continue
        if ch in STRUCT_INT and not any(isinstance(b, SymBV) for b in part):
            # bytes that are mathematical integers (0..255 by construction): linear reassembly
            tot = 0
            for i, b in enumerate(part):
                tot = eng.op("Add", tot, eng.op("Mult", b, 256 ** i))
            if STRUCT_INT[ch][1] and eng.truth(eng.cmp("GtE", tot, 2 ** (8 * n - 1))):
                tot = eng.op("Sub", tot, 2 ** (8 * n))
            out.append(tot)
            continue
        bv = z3.Concat(*[_byte_term(b) for b in reversed(part)]) if n > 1 else _byte_term(part[0])
        if ch == "d":
            sbv = z3.simplify(bv)
            orig = eng.fp_origin.get(sbv.get_id())
            if orig is not None:
                out.append(orig)        # unpack(pack(x)) peephole: same float, tags kept
            else:
                out.append(SymFloat(z3.fpBVToFP(bv, F64)))
        elif ch == "f":
            out.append(SymFloat(z3.fpFPToFP(z3.RNE(), z3.fpBVToFP(bv, z3.Float32()), F64)))
        else:
            out.append(mkbv(bv, STRUCT_INT[ch][1]))
    return tuple(out)


def m_pack(eng, fmt, *vals):
    if not any(is_sym(v) for v in vals):
        return struct.pack(fmt, *vals)
    items = [c for c in _parse_fmt(fmt)]
    if len([c for c in items if c != "x"]) != len(vals):
        raise struct.error("pack expected %d items for packing (got %d)" % (len(items), len(vals)))
    out = []
    vi = 0
    for ch in items:
        if ch == "x":
            out.append(0)
            continue
        v = vals[vi]
        vi += 1
        if ch == "d":
            if not isinstance(v, (SymFloat, float, int, SymInt, SymBV, SymBool)):
                raise struct.error("required argument is not a float")
            if isinstance(v, SymFloat) and v.ival is not None:
                # integral-valued float: keep tag through pack/unpack peephole
                pass
            if is_sym(v):
                fv_sym = v if isinstance(v, SymFloat) else eng.as_float(v)
                if fv_sym.ival is not None and is_sym(fv_sym.ival):
                    # integral-valued double: its 8 bytes are an uninterpreted word (same value -> same word);
                    # unpack() of exactly these bytes gives the value back. Over-approximation: no other
                    # relation between the value and its bytes is assumed.
                    key = ("ival", fv_sym.ival.t.get_id())
                    eng.keep.append(fv_sym.ival.t)
                    bv = eng.fp_pack_cache.get(key)
                    if bv is None:
                        bv = z3.BitVec("_f64_%d" % eng.fresh_id(), 64)
                        eng.fp_pack_cache[key] = bv
                        eng.fp_origin[bv.get_id()] = fv_sym
                elif fv_sym.t is None:
                    # real-enclosure / quotient / decimal-defined double: its 8 bytes are an uninterpreted word
                    # (same value -> same word); unpack() of exactly these bytes gives the value back
                    if fv_sym.quot is not None:
                        qt = zint(fv_sym.quot[0])
                        eng.keep.append(qt)
                        key = ("quot", qt.get_id(), fv_sym.quot[1])
                    else:
                        rt = eng.real_of(fv_sym)
                        eng.keep.append(rt)
                        key = ("real", rt.get_id())
                    bv = eng.fp_pack_cache.get(key)
                    if bv is None:
                        bv = z3.BitVec("_f64_%d" % eng.fresh_id(), 64)
                        eng.fp_pack_cache[key] = bv
                        eng.fp_origin[bv.get_id()] = fv_sym
                        eng.__dict__.setdefault("keepalive", []).append((bv, fv_sym))
                else:
                    fv = eng.to_fp(fv_sym)
                    eng.keep.append(fv)
                    key = ("fp", fv.get_id())
                    bv = eng.fp_pack_cache.get(key)
                    if bv is None:
                        bv = z3.BitVec("_f64_%d" % eng.fresh_id(), 64)
                        eng.fp_pack_cache[key] = bv
                        eng.add_fact(z3.Or(z3.fpBVToFP(bv, F64) == fv, z3.And(z3.fpIsNaN(fv), z3.fpIsNaN(z3.fpBVToFP(bv, F64)))))
                        eng.fp_origin[bv.get_id()] = fv_sym
            else:
                bv = z3.BitVecVal(struct.unpack("<Q", struct.pack("<d", v))[0], 64)
            for i in range(8):
                out.append(mkbv(z3.Extract(8 * i + 7, 8 * i, bv), False))
            continue
        if ch == "f":
            raise Unsupported("pack <f symbolic")
        n, signed = STRUCT_INT[ch]
        if isinstance(v, (SymFloat, float)):
            raise struct.error("required argument is not an integer")
        if v is None or isinstance(v, (str, SymStr)):
            raise struct.error("required argument is not an integer")
        lo, hi = (-(2 ** (8 * n - 1)), 2 ** (8 * n - 1) - 1) if signed else (0, 2 ** (8 * n) - 1)
        if is_sym(v):
            if eng.truth(eng.or_(eng.cmp("Lt", v, lo), eng.cmp("Gt", v, hi))):
                raise struct.error("argument out of range")
            if isinstance(v, SymBV):
                w = 8 * n
                t = v.ext(w) if v.w <= w else z3.Extract(w - 1, 0, v.t)
                for i in range(n):
                    out.append(mkbv(z3.Extract(8 * i + 7, 8 * i, t), False))
            else:
                # mathematical integer: bytes by linear div/mod (keeps the query in LIA)
                u = v
                if signed and eng.truth(eng.cmp("Lt", v, 0)):
                    u = eng.op("Add", v, 2 ** (8 * n))
                rest = u
                for i in range(n):
                    if i == n - 1:
                        out.append(rest)
                    else:
                        out.append(eng.op("Mod", rest, 256))
                        rest = eng.op("FloorDiv", rest, 256)
        else:
            out.extend(struct.pack("<" + ch, v))
    return mkbytes(out)


# ------------------------------------------------------------------------------- math
def m_floor(eng, x):
    if isinstance(x, SymFloat):
        return eng.float_to_int(x, "floor")
    if isinstance(x, (SymInt, SymBV)):
        return x
    return math.floor(x)


def m_ceil(eng, x):
    if isinstance(x, SymFloat):
        return eng.float_to_int(x, "ceil")
    if isinstance(x, (SymInt, SymBV)):
        return x
    return math.ceil(x)


def m_trunc(eng, x):
    if isinstance(x, SymFloat):
        return eng.float_to_int(x, "trunc")
    return math.trunc(x)


LOG2_TABLE = {}


def _log2_thresholds(k):
    """for the binade [2^k, 2^(k+1)): (A, B, C) with  math.log2(n) == k  iff n <= A;  math.log2(n) < k + 0.5  iff n < B;
    math.log2(n) >= k + 1  iff n >= C  - found by bisection on the running interpreter's math.log2 (assumed monotone
    on integers, which is checked on every probe pair the bisection visits)"""
    hit = LOG2_TABLE.get(k)
    if hit is not None:
        return hit
    lo, hi = 2 ** k, 2 ** (k + 1) - 1

    def first(pred):
        # smallest n in [lo, hi] with pred(n) (pred monotone: False...True), hi + 1 if none
        a, b = lo, hi + 1
        while a < b:
            m = (a + b) // 2
            if pred(m):
                b = m
            else:
                a = m + 1
        return a
    A = first(lambda n: math.log2(n) > k) - 1
    B = first(lambda n: math.log2(n) >= k + 0.5)
    C = first(lambda n: math.log2(n) >= k + 1)
    LOG2_TABLE[k] = (A, B, C)
    return A, B, C


def m_log2(eng, x):
    """math.log2 of a positive symbolic int below 2^53: the path forks on the binade; within it the result is a double y
    with k <= y <= k + 1 whose position relative to k, k + 1/2 and k + 1 is fixed by integer thresholds taken from the
    running interpreter (so ceil / floor / round / int of it are exact); nothing else about y is assumed"""
    if isinstance(x, SymFloat) and x.ival is not None:
        x = x.ival
    if not isinstance(x, (SymInt, SymBV)):
        if deep_sym(x):
            raise Unsupported("log2 on symbolic non-integer value is not encodable")
        return math.log2(x)
    if isinstance(x, SymBV):
        x = mkint(zint(x))
    if eng.truth(eng.cmp("LtE", x, 0)):
        raise ValueError("math domain error")
    k = 0
    while eng.truth(eng.cmp("GtE", x, 2 ** (k + 1))):
        k += 1
        if k > 52:
            raise Unsupported("log2 of an int that may exceed 2^53")
    A, B, C = _log2_thresholds(k)
    y = z3.Real("_log2_%d" % eng.fresh_id())
    eng.real_mode = True
    half = z3.Q(2 * k + 1, 2)
    eng.add_fact(z3.And(y >= k, y <= k + 1, (y == k) == (x.t <= A), (y < half) == (x.t < B), (y == k + 1) == (x.t >= C)))
    eng.set_bounds(y, k, k + 1)
    return SymFloat(real=y)


LOGB_TABLE = {}


def _logb_thresholds(base, k):
    """for n in [base^k, base^(k+1)): (A, C) with  math.log(n, base) < k  iff n <= A  and  math.log(n, base) >= k + 1
    iff n >= C - by bisection on the running interpreter (the quotient log(n)/log(base) assumed monotone on integers)"""
    hit = LOGB_TABLE.get((base, k))
    if hit is not None:
        return hit
    lo, hi = base ** k, base ** (k + 1) - 1

    def first(pred):
        a, b = lo, hi + 1
        while a < b:
            m = (a + b) // 2
            if pred(m):
                b = m
            else:
                a = m + 1
        return a
    A = first(lambda n: math.log(n, base) >= k) - 1
    C = first(lambda n: math.log(n, base) >= k + 1)
    LOGB_TABLE[(base, k)] = (A, C)
    return A, C


def m_log(eng, x, base=None):
    """math.log(x, base) of a positive symbolic int below 2^53 with a concrete integer base >= 2: the path forks on the
    exact integer logarithm k; within it the result is a real y, k - 1 < y < k + 2, whose position relative to k and
    k + 1 is fixed by integer thresholds taken from the running interpreter (the float quotient can land just below k at
    an exact power); nothing else about y is assumed - enough for int() / floor() of it"""
    if isinstance(x, SymFloat) and x.ival is not None:
        x = x.ival
    if not deep_sym(x) and not deep_sym(base):
        return math.log(x) if base is None else math.log(x, base)
    if is_sym(base):
        base = eng.concretize_int(base, "log base")
    if not isinstance(x, (SymInt, SymBV)) or not isinstance(base, int) or isinstance(base, bool) or base < 2:
        raise Unsupported("log on symbolic value is not encodable")
    if isinstance(x, SymBV):
        x = mkint(zint(x))
    if eng.truth(eng.cmp("LtE", x, 0)):
        raise ValueError("math domain error")
    k = 0
    while eng.truth(eng.cmp("GtE", x, base ** (k + 1))):
        k += 1
        if base ** (k + 1) > 2 ** 53:
            if eng.truth(eng.cmp("GtE", x, 2 ** 53)):
                raise Unsupported("log of an int that may exceed 2^53")
            break
    A, C = _logb_thresholds(base, k)
    y = z3.Real("_logb_%d" % eng.fresh_id())
    eng.real_mode = True
    eng.add_fact(z3.And(y > k - 1, y < k + 2, (y < k) == (x.t <= A), (y >= k + 1) == (x.t >= C)))
    eng.set_bounds(y, k - 1, k + 2)
    return SymFloat(real=y)


def m_unmodelled(name):
    def f(eng, *a, **k):
        if any(deep_sym(x) for x in a):
            raise Unsupported(f"{name} on symbolic value is not encodable")
        return getattr(math, name)(*a, **k)
    return f


# ------------------------------------------------------------------------------- api
def nondet_bool_sym(eng, tag, model=False):
    """a nondeterministic boolean. model=True: the choice is made inside a library MODEL that over-approximates native
    behaviour (both outcomes are explored although the native run realises only one): a native replay of such a path may
    legitimately end differently, which is then not counted as an interpreter mismatch"""
    if model:
        eng.path_model_nondet = True
    i = eng.nondet_n.get(tag, 0)
    eng.nondet_n[tag] = i + 1
    name = f"nd:{tag}#{i}"
    v = SymBool(z3.Bool(name))
    eng.register_input(name, "nd", v)
    return v


def a_assume(eng, cond):
    eng.assume(cond)


def a_nondet_bool(eng, tag):
    return nondet_bool_sym(eng, tag)


def a_nondet_int(eng, tag, lo, hi):
    i = eng.nondet_n.get(tag, 0)
    eng.nondet_n[tag] = i + 1
    name = f"nd:{tag}#{i}"
    t = z3.Int(name)
    if lo is not None:
        eng.add_fact(t >= lo)
    if hi is not None:
        eng.add_fact(t <= hi)
    if isinstance(lo, (int, type(None))) and isinstance(hi, (int, type(None))):
        eng.set_bounds(t, lo, hi)
    v = SymInt(t)
    eng.register_input(name, "nd", v)
    return v


def a_nondet_bv(eng, tag, width, signed=False):
    i = eng.nondet_n.get(tag, 0)
    eng.nondet_n[tag] = i + 1
    name = f"nd:{tag}#{i}"
    v = SymBV(z3.BitVec(name, width), signed)
    eng.register_input(name, "nd", v)
    return v


def a_nondet_bytes(eng, tag, n):
    i = eng.nondet_n.get(tag, 0)
    eng.nondet_n[tag] = i + 1
    name = f"nd:{tag}#{i}"
    v = SymBytes([SymBV(z3.BitVec(f"{name}[{j}]", 8), False) for j in range(n)])
    eng.register_input(name, "nd", v)
    return v


def a_nondet_str(eng, tag, n, lo=48, hi=57):
    i = eng.nondet_n.get(tag, 0)
    eng.nondet_n[tag] = i + 1
    name = f"nd:{tag}#{i}"
    cs = []
    for j in range(n):
        c = z3.Int(f"{name}[{j}]")
        eng.add_fact(z3.And(c >= lo, c <= hi))
        cs.append(SymInt(c))
    v = SymStr(cs) if cs else ""
    eng.register_input(name, "nd", v)
    return v


def a_opaque_bytes(eng, tag, length):
    from .blob import Rope, SymBlob
    return SymBlob([Rope(str(tag), 0, length)])


def a_cover(eng, label):
    site = "cover:" + str(label)
    eng.sites_reached[site] = eng.sites_reached.get(site, 0) + 1


def a_concretize(eng, x):
    return eng.concretize_int(x, "api.concretize")


def a_round15(eng, x):
    if isinstance(x, SymFloat) and x.dec is not None:
        if len(x.dec[1]) > 15:
            raise Unsupported("round15 of a value with more than 15 digits")
        return SymFloat(dec=x.dec)
    if is_sym(x):
        raise Unsupported("round15 of symbolic " + type(x).__name__)
    return float("%.15g" % x)


def a_is_symbolic(eng, x):
    return deep_sym(x)


# ------------------------------------------------------------------------------- format()
def sym_format(eng, x, spec):
    """format(x, spec) for the few specs the repository uses on possibly-symbolic values"""
    if is_sym(spec):
        raise Unsupported("symbolic format spec")
    if spec == "":
        return eng.to_str(x)
    if isinstance(x, (SymInt, SymBV)):
        m = _re.fullmatch(r"(0?)(\d*)([dxXb]?)", spec)
        if m:
            zero, width, ty = m.groups()
            base = {"": 10, "d": 10, "x": 16, "X": 16, "b": 2}[ty]
            s = eng.int_to_str(x) if base == 10 else digits_in_base(eng, x, base)
            cs = list(chars(s))
            if ty == "X":
                cs = [c - 32 if isinstance(c, int) and 97 <= c <= 122 else c for c in cs]
            w = int(width) if width else 0
            if len(cs) < w:
                pad = 48 if zero else 32
                if zero and cs and eng.truth(eng.cmp("Eq", cs[0], 45)):
                    cs = [45] + [pad] * (w - len(cs)) + cs[1:]
                else:
                    cs = [pad] * (w - len(cs)) + cs
            return mkstr(cs)
        if spec == ",":
            s = eng.int_to_str(x)
            cs = list(chars(s))
            neg = bool(cs) and eng.truth(eng.cmp("Eq", cs[0], 45))
            body = cs[1:] if neg else cs
            out = []
            for i, c in enumerate(body):
                if i and (len(body) - i) % 3 == 0:
                    out.append(44)
                out.append(c)
            return mkstr(([45] if neg else []) + out)
    if isinstance(x, (SymStr, str)):
        m = _re.fullmatch(r"([<>^]?)(\d+)", spec)
        if m:
            al, w = m.groups()
            cs = list(chars(x))
            w = int(w)
            if len(cs) >= w:
                return mkstr(cs)
            pad = [32] * (w - len(cs))
            if al == ">":
                return mkstr(pad + cs)
            if al == "^":
                h = len(pad) // 2
                return mkstr(pad[:h] + cs + pad[h:])
            return mkstr(cs + pad)
    if isinstance(x, SymDecimal) and spec == "f":
        # positional notation; the digits and the exponent are kept as they are (trailing zeros included)
        digits, ex = list(x.digits), x.exponent
        n = len(digits)
        ds = [eng.op("Add", d, 48) for d in digits]
        if ex >= 0:
            body = ds + [48] * ex
        else:
            p_ = n + ex
            if p_ > 0:
                body = ds[:p_] + [46] + ds[p_:]
            else:
                body = [48, 46] + [48] * (-p_) + ds
        neg = x.neg if isinstance(x.neg, bool) else eng.truth(x.neg)
        return mkstr(([45] if neg else []) + body)
    if isinstance(x, SymFloat) and x.quot is not None:
        m = _re.fullmatch(r"\.(\d+)f", spec)
        if m:
            return fmt_fixed_quot(eng, x, int(m.group(1)))
    if isinstance(x, SymFloat) and x.dec is not None:
        m = _re.fullmatch(r"\.(\d+)([eE])", spec)
        if m:
            return fmt_exp(eng, x, int(m.group(1)), m.group(2))
    raise Unsupported(f"format spec {spec!r} on symbolic {type(x).__name__}")


def fmt_fixed_quot(eng, x, k):
    """format(a / 10^m, '.<k>f') for a non-negative symbolic integer a: the correctly rounded decimal of the double. The
    double is within 2^-53 (relative) of a/10^m, while every rounding boundary other than a/10^m itself is at least
    0.5 * 10^-m away: away from exact decimal ties the result is a/10^m rounded to k decimals; on a tie the direction
    depends on the binary value and both outcomes are explored."""
    a, den = x.quot
    mexp = len(str(den)) - 1
    if den != 10 ** mexp or not eng.must(eng.cmp("GtE", a, 0)):
        raise Unsupported("format '.Nf' of a quotient that is not a non-negative multiple of a power of ten")
    if k >= mexp:
        n = eng.op("Mult", a, 10 ** (k - mexp))
    else:
        step = 10 ** (mexp - k)
        q = eng.op("FloorDiv", a, step)
        r = eng.op("Mod", a, step)
        twice = eng.op("Mult", r, 2)
        if eng.truth(eng.cmp("Gt", twice, step)):
            n = eng.op("Add", q, 1)
        elif eng.truth(eng.cmp("Lt", twice, step)):
            n = q
        else:
            up = eng.truth(nondet_bool_sym(eng, "format-tie#%d" % eng.fresh_id(), model=True))
            n = eng.op("Add", q, 1) if up else q
    cs = list(chars(eng.int_to_str(n) if is_sym(n) else str(n)))
    if len(cs) < k + 1:
        cs = [48] * (k + 1 - len(cs)) + cs
    if k:
        cs = cs[:-k] + [46] + cs[-k:]
    return mkstr(cs)


def fmt_exp(eng, x, places, letter):
    """format(x, '.<places>E') of a decimal-defined double (<= 15-17 significant digits d1..dn at exponent e10): the
    correctly rounded decimal of the binary value (documented behaviour of float.__format__). The double differs from
    its defining decimal by far less than half a unit of any place shown, so the result is the decimal rounded to
    places+1 digits - except on an exact decimal tie, where the direction depends on the binary value: both outcomes
    are explored (nondeterministic choice)."""
    neg, digits, e10 = x.dec
    n = len(digits)
    keep = places + 1
    exp = e10
    if n <= keep:
        ds = list(digits) + [0] * (keep - n)
    else:
        head, tail = list(digits[:keep]), list(digits[keep:])
        t0 = tail[0]
        if len(tail) == 1:
            # the last digit of a shortest representation is non-zero: a tie iff it is 5
            if eng.truth(eng.cmp("Eq", t0, 5)):
                up = eng.truth(nondet_bool_sym(eng, "format-tie#%d" % eng.fresh_id(), model=True))
            else:
                up = eng.truth(eng.cmp("Gt", t0, 5))
        else:
            up = eng.truth(eng.cmp("GtE", t0, 5))          # 5 followed by a non-zero digit further on: above the tie
        if not up:
            ds = head
        else:
            M = 0
            for d in head:
                M = eng.op("Add", eng.op("Mult", M, 10), d)
            M = eng.op("Add", M, 1)
            if eng.truth(eng.cmp("Eq", M, 10 ** keep)):
                ds = [1] + [0] * (keep - 1)
                exp = e10 + 1
            else:
                s10 = eng.int_to_str(M)
                ds = [eng.op("Sub", c, 48) for c in chars(s10)]
                if len(ds) != keep:
                    raise Unsupported("format: unexpected digit count")
    cs = [45] if eng.truth(neg) else []
    cs.append(eng.op("Add", ds[0], 48))
    if keep > 1:
        cs.append(46)
        cs.extend(eng.op("Add", d, 48) for d in ds[1:])
    cs.append(ord(letter))
    cs.append(45 if exp < 0 else 43)
    cs.extend(ord(c) for c in "%02d" % abs(exp))
    return mkstr(cs)


def m_decimal(eng, x="0", *a):
    """decimal.Decimal of repr(int) / repr(float) of symbolic values: only as_tuple() is provided"""
    import decimal
    if isinstance(x, LazyStr) and len(x.parts) == 1 and isinstance(x.parts[0], tuple):
        kind, v = x.parts[0]
        if kind == "float":
            neg, digits, e10 = v.dec
            return SymDecimal(neg, list(digits), e10 - (len(digits) - 1))
        if kind == "int":
            neg = eng.truth(eng.cmp("Lt", v, 0))
            s = eng.int_to_str(eng.neg(v) if neg else v)
            return SymDecimal(neg, [eng.op("Sub", c, 48) for c in chars(s)], 0)
    if isinstance(x, (SymInt, SymBV)):
        return m_decimal(eng, LazyStr([("int", x)]))
    if isinstance(x, LazyStr):
        x = eng.force_str(x)
    if isinstance(x, SymStr):
        # a plain decimal string [-]digits[.digits] whose digit characters may be symbolic (structure concrete)
        cs = list(x.cs)
        neg = False
        if cs and isinstance(cs[0], int) and cs[0] in (45, 43):
            neg = cs[0] == 45
            cs = cs[1:]
        if not cs:
            raise decimal.InvalidOperation("empty")
        point = [i for i, c in enumerate(cs) if isinstance(c, int) and c == 46]
        if len(point) > 1:
            raise decimal.InvalidOperation("two points")
        ip = cs[:point[0]] if point else cs
        fp = cs[point[0] + 1:] if point else []
        digs = []
        for c in ip + fp:
            if isinstance(c, int):
                if not 48 <= c <= 57:
                    raise Unsupported("Decimal of a symbolic string that is not a plain positional decimal")
                digs.append(c - 48)
            else:
                if not eng.must(eng.and_(eng.cmp("GtE", c, 48), eng.cmp("LtE", c, 57))):
                    raise Unsupported("Decimal of a symbolic string with a possibly non-digit character")
                digs.append(eng.op("Sub", c, 48))
        if len(ip) > 1 and not (isinstance(ip[0], int) and ip[0] != 48) and \
                not (not isinstance(ip[0], int) and eng.must(eng.cmp("NotEq", ip[0], 48))):
            raise Unsupported("Decimal of a symbolic string that may have leading zeros")
        if not ip:
            raise Unsupported("Decimal of a symbolic string without integer digits")
        return SymDecimal(neg, digs, -len(fp))
    if deep_sym(x):
        raise Unsupported("Decimal of symbolic " + type(x).__name__)
    return decimal.Decimal(x, *a)


class SymDecimal:
    def __init__(self, neg, digits, exponent):
        self.neg, self.digits, self.exponent = neg, digits, exponent

    def as_tuple(self):
        import decimal
        sign = self.neg if not isinstance(self.neg, bool) else int(self.neg)
        return decimal.DecimalTuple(sign, tuple(self.digits), self.exponent)


def m_sigfig_round(eng, x, *a, **kw):
    """sigfig.round(x, sigfigs=N): identity when x has at most N significant digits (the only case in the stated domain)"""
    n = kw.get("sigfigs", a[0] if a else None)
    if isinstance(x, SymFloat) and x.dec is not None and n is not None and "decimals" not in kw and kw.get("type") is None:
        if len(x.dec[1]) <= n:
            return x if x.noise is None else SymFloat(dec=x.dec)      # 15-digit rounding removes a few ulp of noise
        raise Unsupported("sigfig.round of a value with more significant digits than requested")
    if deep_sym(x):
        raise Unsupported("sigfig.round on symbolic value")
    import sigfig
    return sigfig.round(x, *a, **kw)


def m_warn(eng, *a, **k):
    return None


def m_unicode_normalize(eng, form, s):
    """unicodedata.normalize on a symbolic string: ASCII characters are fixed points of all four normal forms and never
    combine with each other, so an all-ASCII string is returned as is (one fork per character on c < 128); as soon as one
    character may be non-ASCII every symbolic character is taken value by value (the harness alphabet keeps them few) and
    the REAL function runs on the concrete text."""
    import unicodedata
    if isinstance(s, LazyStr):
        s = eng.force_str(s)
    if not isinstance(s, SymStr):
        return unicodedata.normalize(form, s)
    ascii_only = True
    for c in s.cs:
        if isinstance(c, int):
            if c >= 128:
                ascii_only = False
        elif not eng.truth(eng.cmp("Lt", c, 128)):
            ascii_only = False
    if ascii_only:
        return s
    out = []
    for c in s.cs:
        out.append(chr(c if isinstance(c, int) else eng.concretize_int(c, "character of a string being normalised", limit=48)))
    return unicodedata.normalize(form, "".join(out))


def install(eng):
    import builtins
    import warnings
    import decimal
    import unicodedata
    eng.models[unicodedata.normalize] = m_unicode_normalize
    eng.models[warnings.warn] = m_warn
    eng.models[decimal.Decimal] = m_decimal
    try:
        import sigfig
        eng.models[sigfig.round] = m_sigfig_round
    except ImportError:
        pass
    M = eng.models
    M.update({
        len: m_len, isinstance: m_isinstance, type: m_type, int: m_int, float: m_float, bool: m_bool, str: m_str,
        repr: m_repr, chr: m_chr, ord: m_ord, range: m_range, reversed: m_reversed, enumerate: m_enumerate,
        zip: m_zip, bytearray: m_bytearray, bytes: m_bytes, abs: m_abs, max: m_max, min: m_min, sum: m_sum,
        any: m_any, all: m_all, sorted: m_sorted, round: m_round, divmod: m_divmod, pow: m_pow, bin: m_bin,
        hex: m_hex, oct: m_oct, getattr: m_getattr, setattr: m_setattr, hasattr: m_hasattr, tuple: m_tuple, list: m_list,
        dict: m_dict, set: m_set, iter: m_iter, next: m_next, id: m_id, hash: m_hash, print: m_print,
        format: m_format, map: m_map, filter: m_filter, callable: m_callable,
        struct.unpack: m_unpack, struct.pack: m_pack,
        math.floor: m_floor, math.ceil: m_ceil, math.trunc: m_trunc,
        api.assume: a_assume, api.nondet_bool: a_nondet_bool, api.nondet_int: a_nondet_int,
        api.nondet_bv: a_nondet_bv, api.nondet_bytes: a_nondet_bytes, api.nondet_str: a_nondet_str, api.opaque_bytes: a_opaque_bytes, api.cover: a_cover,
        api.is_symbolic: a_is_symbolic, api.round15: a_round15, api.concretize: a_concretize,
    })
    M[math.log2] = m_log2

    def _fp_pred(name, on_t, on_exact):
        def f(eng, x):
            if isinstance(x, SymFloat):
                if x.t is not None:
                    return mkbool(on_t(x.t))
                return on_exact          # integral / rational / enclosure floats are finite by construction
            if isinstance(x, (SymInt, SymBV, SymBool)):
                return on_exact
            return getattr(math, name)(x)
        return f
    M[math.isnan] = _fp_pred("isnan", z3.fpIsNaN, False)
    M[math.isinf] = _fp_pred("isinf", z3.fpIsInf, False)
    M[math.isfinite] = _fp_pred("isfinite", lambda t: z3.Not(z3.Or(z3.fpIsNaN(t), z3.fpIsInf(t))), True)
    M[math.log] = m_log
    for name in ("log10", "pow", "sqrt", "exp", "modf", "copysign", "fabs"):
        M[getattr(math, name)] = m_unmodelled(name)
    from . import symre, dtmodels
    symre.install(eng)
    dtmodels.install(eng)
    eng.fresh_id = lambda: _fresh(eng)


def _fresh(eng):
    eng.fresh_n += 1
    return eng.fresh_n
