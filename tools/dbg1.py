"""single-case in-process runner: tools/dbg1.py C14 H14c-ms "dict(largest=16, smallest=32, style=1, auto=False)" [maxpaths] [tier]"""
import sys, os, time, importlib
ROOT = os.path.dirname(os.path.dirname(os.path.abspath(__file__)))
sys.path.insert(0, ROOT); sys.setrecursionlimit(20000)
from pysym import run, api
pid, hname, case = sys.argv[1], sys.argv[2], eval(sys.argv[3])
maxp = int(sys.argv[4]) if len(sys.argv) > 4 else 50
run.TIER = sys.argv[5] if len(sys.argv) > 5 else "quick"
run.SPEC = importlib.import_module("specs." + pid.lower())
run.KNOWN = run.load_known()["findings"]
t0=time.time()
r = run.worker_task((hname, case, [[]], maxp, None, 5, 0))
print(case, {k: (round(v, 2) if isinstance(v, float) else v) for k, v in r["stats"].items()}, "left", len(r["leftover"]), "err", r["error"])
for v in r["violations"][:5]: print("  VIOL", str(v)[:400])
for m in r["mismatches"][:3]: print("  MISMATCH", str(m)[:600])
for w in r["witnesses"][:3]: print("  wit", str(w)[:300])
print("wall", round(time.time()-t0,2))
