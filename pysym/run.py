"""Driver: python -m pysym.run <property-id> [--tier quick|thorough] [--harness NAME] [--jobs N]

Exit codes: 0 property held on everything explored (KNOWN-FINDING lines allowed),
            1 VIOLATION (replayed natively), 2 INCONCLUSIVE, 3 HARNESS-ERROR.
"""
import argparse
import copy
import importlib
import itertools
import json
import multiprocessing as mp
import os
import random
import sys
import time
import traceback

ROOT = os.path.dirname(os.path.dirname(os.path.abspath(__file__)))
sys.path.insert(0, ROOT)
sys.setrecursionlimit(20000)

from pysym import api  # noqa: E402
from pysym.values import PathAbort, SolverUnknown, Unsupported  # noqa: E402

SPEC = None
TIER = "quick"
_ENG = None
KNOWN = []


def load_known():
    p = os.path.join(ROOT, "known_findings.json")
    if not os.path.exists(p):
        return {"findings": [], "fixed": []}
    return json.load(open(p))


def harness_by_name(name):
    for h in SPEC.HARNESSES:
        if h.name == name:
            return h
    raise KeyError(name)


def roots_of(h, tier):
    doms = h.input_domains(tier)
    case_names = [k for k, d in doms.items() if isinstance(d, api.Cases)]
    combos = itertools.product(*[doms[k].values for k in case_names]) if case_names else [()]
    return [dict(zip(case_names, c)) for c in combos]


class patched:
    """install the harness's environment stubs (symbolic and native runs see the same environment)"""

    def __init__(self, h):
        self.h = h
        self.saved = []

    def __enter__(self):
        for owner, name, value in self.h.patches:
            self.saved.append((owner, name, owner.__dict__[name] if isinstance(owner, type) and name in owner.__dict__ else getattr(owner, name)))
            setattr(owner, name, value)

    def __exit__(self, *a):
        for owner, name, old in reversed(self.saved):
            setattr(owner, name, old)
        self.saved = []


# ------------------------------------------------------------------------------- native replay
def native_outcome(h, inputs):
    """the harness run natively on concrete inputs, in a forked child: every replay starts from the state the modules
    had after import (a replay cannot leave anything behind for the next one or for the symbolic paths), and a replay
    that hangs is cut off"""
    if os.environ.get("PYSYM_NATIVE_INPROC") or not hasattr(os, "fork"):
        with patched(h):
            return _native_outcome(h, inputs)
    import signal
    import warnings
    out = None
    for _attempt in range(2):
        out = _native_outcome_forked(h, inputs, signal, warnings)
        if out[0] != "timeout":
            break           # (a child that inherited a lock held by a short-lived solver thread would hang: tried again)
    return out


def _native_outcome_forked(h, inputs, signal, warnings):
    r, w = os.pipe()
    sys.stdout.flush()
    sys.stderr.flush()
    with warnings.catch_warnings():
        warnings.simplefilter("ignore", DeprecationWarning)
        pid = os.fork()
    if pid == 0:
        code = 0
        try:
            os.close(r)
            signal.signal(signal.SIGALRM, signal.SIG_DFL)
            signal.alarm(NATIVE_TIMEOUT_S)
            with patched(h):
                out = _native_outcome(h, inputs)
            os.write(w, json.dumps(list(out)).encode())
        except BaseException as e:  # noqa: BLE001
            try:
                os.write(w, json.dumps(["internal", type(e).__name__]).encode())
            except BaseException:  # noqa: BLE001
                code = 3
        finally:
            os._exit(code)
    os.close(w)
    chunks = []
    while True:
        b = os.read(r, 65536)
        if not b:
            break
        chunks.append(b)
    os.close(r)
    os.waitpid(pid, 0)
    data = b"".join(chunks)
    if not data:
        return ("timeout", None)
    out = json.loads(data)
    return (out[0], out[1])


NATIVE_TIMEOUT_S = 60


def _native_outcome(h, inputs):
    """run the harness natively on concrete inputs -> ('ok',None) | ('violation','L<line>') | ('escaped',Type) | ('assume',None)"""
    nd = {k: v for k, v in inputs.items() if k.startswith("nd:")}
    args = {k: copy.deepcopy(v) for k, v in inputs.items() if not k.startswith("nd:")}
    api._REPLAY = dict(nd)
    specfile = os.path.abspath(sys.modules[h.fn.__module__].__file__)
    import warnings
    try:
        with warnings.catch_warnings():
            warnings.simplefilter("ignore")
            h.fn(**args)
        return ("ok", None)
    except api.AssumeFailed:
        return ("assume", None)
    except api.ReplayMissing as e:
        return ("replay-missing", str(e))
    except AssertionError as e:
        line = None
        specdir = os.path.dirname(specfile)
        for fs in traceback.extract_tb(e.__traceback__):
            # the assert that failed: the innermost frame inside a spec module (harnesses may be shared between specs)
            if os.path.dirname(os.path.abspath(fs.filename)) == specdir:
                line = fs.lineno
        if line is None:
            return ("escaped", "AssertionError")
        return ("violation", "L%d" % line)
    except Exception as e:
        return ("escaped", type(e).__name__)
    finally:
        api._REPLAY = None


def sym_outcome_key(o):
    if o[0] == "violation":
        return ("violation", o[1].split(":", 1)[0])
    return tuple(o)


# ------------------------------------------------------------------------------- worker
def get_engine(h):
    global _ENG
    from pysym.engine import Engine
    if _ENG is None:
        _ENG = Engine()
    e = _ENG
    if not hasattr(e, "base_models"):
        e.base_models = dict(e.models)
    e.models = dict(e.base_models)
    e.models.update(h.models)
    e.extra_interp = set(getattr(f, "__code__", None) for f in getattr(h, "interpret", ()))
    cc = os.environ.get("VERIF_CROSSCHECK")
    e.crosscheck_every = int(cc) if cc else (97 if TIER == "thorough" else 499)
    e.loop_bound = h.loop_bound
    e.solver.set("timeout", h.timeout_ms)
    e.violations = []
    e.sites_reached = {}
    e.stats = {k: (0.0 if isinstance(v, float) else 0) for k, v in e.stats.items()}
    e.known = [k for k in KNOWN if k["property"] == SPEC.PROPERTY and
               (k["harness"] == h.name or (k.get("harness_prefix") and h.name.startswith(k["harness"])))]
    return e


def worker_task(task):
    with patched(harness_by_name(task[0])):
        return _worker_task(task)


def _worker_task(task):
    hname, case, prefixes, budget_paths, budget_s, want_witness, seed = task
    h = harness_by_name(hname)
    res = dict(harness=hname, case=case, stats={}, violations=[], witnesses=[], mismatches=[], sites={}, funcs={},
               error=None, leftover=[], lemmas=[])
    try:
        eng = get_engine(h)
        doms = h.input_domains(TIER)
        rnd = random.Random(seed)

        def run_path(e):
            args = {}
            for name, d in doms.items():
                if isinstance(d, api.Cases):
                    args[name] = case[name]
                else:
                    v = d.make(e, name)
                    args[name] = v
                    if not isinstance(d, api.Const):
                        e.register_input(name, "in", v)
            e.case = case
            e.call_function(h.fn, [], args)

        nw = [0]

        def on_path(e, outcome):
            take = outcome[0] != "ok" or nw[0] < want_witness
            if not take:
                return
            try:
                m = e.get_model()
            except PathAbort:
                return
            inputs = e.extract_inputs(m)
            inputs.update(case)
            nat = native_outcome(h, inputs)
            nw[0] += 1
            so = sym_outcome_key(outcome)
            rec = dict(inputs=_jsonable(inputs), outcome=list(so))
            if len(res["witnesses"]) < 6:
                res["witnesses"].append(rec)
            res["stats"]["witness_replays"] = res["stats"].get("witness_replays", 0) + 1
            if tuple(nat) != so:
                if getattr(e, "path_model_nondet", False):
                    # the path took a branch of an over-approximating library model (e.g. the direction of an exact
                    # rounding tie) that the native run did not realise: not an interpreter mismatch
                    res["stats"]["unrealised_model_choices"] = res["stats"].get("unrealised_model_choices", 0) + 1
                else:
                    res["mismatches"].append(dict(inputs=_jsonable(inputs), symbolic=list(so), native=list(nat)))

        if seed:
            rnd.shuffle(prefixes)
        def on_unknown(e, exc):
            _candidate_replay(h, case, res)

        stopped = None
        try:
            left = eng.explore(run_path, prefixes, budget_paths=budget_paths, budget_s=budget_s, on_path=on_path, on_unknown=on_unknown)
        except (Unsupported, SolverUnknown) as ex:
            # the exploration of this root stops here (inconclusive) - counterexamples found on earlier paths still count
            stopped = ex
            left = []
            res["error"] = ("unsupported: " if isinstance(ex, Unsupported) else "solver-unknown: ") + str(ex) + " @ " + _where()
            _candidate_replay(h, case, res)
        res["leftover"] = left
        if eng.unknown_paths and stopped is None:
            res["error"] = "solver-unknown on %d path(s): %s" % (len(eng.unknown_paths), eng.unknown_paths[0])
        for k, v in eng.stats.items():
            res["stats"][k] = res["stats"].get(k, 0) + v
        # native confirmation of counterexamples
        for v in eng.violations:
            inputs = dict(v["inputs"])
            inputs.update(case)
            nat = native_outcome(h, inputs)
            if v["site"].startswith("escaped:"):
                confirmed = nat == ("escaped", v["site"].split(":", 1)[1])
            else:
                confirmed = nat[0] == "violation" and nat[1] == v["site"].split(":", 1)[0]
            if not confirmed and v.get("model_nondet"):
                res["stats"]["unrealised_model_choices"] = res["stats"].get("unrealised_model_choices", 0) + 1
                alt = _alternative_models(h, case, v, eng)
                if alt is not None:
                    res["violations"].append(alt)
                continue            # a candidate that exists only under the unrealised branch of a library model
            res["violations"].append(dict(site=v["site"], known=v["known"], inputs=_jsonable(inputs), case=case,
                                          native=list(nat), confirmed=confirmed))
        res["sites"] = dict(eng.sites_reached)
        res["funcs"] = dict(eng.func_hashes)
        from pysym.ops import LEMMA_LOG
        res["lemmas"] = list(LEMMA_LOG)
        del LEMMA_LOG[:]
    except Unsupported as e:
        res["error"] = "unsupported: " + str(e) + " @ " + _where()
        _candidate_replay(h, case, res)
    except SolverUnknown as e:
        if os.environ.get("PYSYM_TRACE"):
            traceback.print_exc()
        res["error"] = "solver-unknown: " + str(e) + " @ " + _where()
        _candidate_replay(h, case, res)
    except BaseException as e:  # interpreter bug
        if os.environ.get("PYSYM_TRACE"):
            traceback.print_exc()
        res["error"] = "internal: %s: %s @ %s" % (type(e).__name__, e, _where())
    return res


def _candidate_replay(h, case, res, tries=12):
    """The path could not be decided symbolically. Its path condition is still a source of candidate inputs: a few
    models are replayed natively and a candidate that violates the property natively is a genuine (confirmed)
    counterexample. Finding none proves nothing - the harness stays inconclusive."""
    import z3
    eng = _ENG
    try:
        cs = z3.Solver()            # a fresh solver (works for both the incremental and the real-enclosure mode)
        cs.set("timeout", 5000)
        cs.add(*eng.pc)
        for i in range(tries):
            if cs.check() != z3.sat:
                break
            m = cs.model()
            inputs = eng.extract_inputs(m)
            inputs.update(case)
            nat = native_outcome(h, inputs)
            if nat[0] in ("violation", "escaped"):
                site = nat[1] + ":(found by native replay of a path-condition model)" if nat[0] == "violation" else "escaped:" + str(nat[1])
                res["violations"].append(dict(site=site, known=None, inputs=_jsonable(inputs), case=case, native=list(nat), confirmed=True))
                break
            # ask for a different candidate: flip the model on every scalar input term
            block = []
            for name, (kind, v) in eng.inputs.items():
                for t in _terms(v):
                    block.append(t != m.eval(t, model_completion=True))
            if not block:
                break
            cs.add(z3.Or(*block[:40]))
            # diversify: prefer different low digits
        if not any(v.get("confirmed") and "(found by native replay" in v["site"] or v["site"].startswith("escaped:") for v in res["violations"]):
            _boundary_candidates(h, case, res, eng, z3)
    except BaseException:
        if os.environ.get("PYSYM_TRACE"):
            traceback.print_exc()


def _boundary_candidates(h, case, res, eng, z3, max_checks=240):
    """boundary values: every integer constant the path condition mentions (thresholds, powers of a base, limits), and
    its two neighbours, is tried for every integer input - pinned in the solver, so that the rest of the model still
    satisfies the path condition - and replayed natively. Rare inputs such as exact powers are found this way when the
    assertion query itself is beyond the solver. A native failure is a confirmed counterexample; none proves nothing."""
    consts = set()
    todo = list(eng.pc)
    seen = set()
    while todo and len(seen) < 20000:
        t = todo.pop()
        if t.get_id() in seen:
            continue
        seen.add(t.get_id())
        if z3.is_int_value(t):
            consts.add(t.as_long())
        elif z3.is_rational_value(t) and t.denominator_as_long() == 1:
            consts.add(t.numerator_as_long())
        else:
            todo.extend(t.children())
    terms = [t for name, (kind, v) in eng.inputs.items() if kind != "nd" for t in _terms(v) if z3.is_int(t)][:4]
    cs = z3.Solver()
    cs.set("timeout", 2000)
    cs.add(*eng.pc)
    n = 0
    for c in sorted(consts, key=abs, reverse=True):
        for t in terms:
            for d in (0, -1, 1):
                if n >= max_checks:
                    return
                n += 1
                cs.push()
                cs.add(t == c + d)
                ok = cs.check() == z3.sat
                m = cs.model() if ok else None
                cs.pop()
                if not ok:
                    continue
                inputs = eng.extract_inputs(m)
                inputs.update(case)
                nat = native_outcome(h, inputs)
                if nat[0] in ("violation", "escaped"):
                    site = nat[1] + ":(found by native replay of a boundary value of the path condition)" if nat[0] == "violation" \
                        else "escaped:" + str(nat[1])
                    res["violations"].append(dict(site=site, known=None, inputs=_jsonable(inputs), case=case, native=list(nat), confirmed=True))
                    return


def _alternative_models(h, case, v, eng, tries=48):
    """The counterexample depends on the branch an over-approximating library model took (rounding-noise direction, tie
    direction, ...) and this particular model did not reproduce natively. Other models of the same constraint system
    are tried: one that violates the property natively at the same site is a genuine, confirmed counterexample."""
    import z3
    smt = v.get("_smt")
    if not smt:
        return None
    cons, inputs = smt
    try:
        cs = z3.Solver()
        cs.set("timeout", 5000)
        cs.add(*cons)
        terms = [t for name, (kind, val) in inputs.items() if kind != "nd" for t in _terms(val)]
        ints = [t for t in terms if z3.is_int(t)]
        for i in range(tries):
            m = None
            if ints:
                # spread the candidates: pin one input term to a pseudo-random small value for this try, if possible
                t = ints[(i * 5 + 1) % len(ints)]
                cs.push()
                cs.add(t == (i * 7 + 3) % 10)
                if cs.check() == z3.sat:
                    m = cs.model()
                cs.pop()
            if m is None:
                if cs.check() != z3.sat:
                    return None
                m = cs.model()
            eng.inputs = inputs
            cand = eng.extract_inputs(m)
            cand.update(case)
            nat = native_outcome(h, cand)
            if os.environ.get("PYSYM_TRACE"):
                print("ALT", i, cand, nat, flush=True)
            if nat[0] == "violation" and nat[1] == v["site"].split(":", 1)[0]:
                return dict(site=v["site"], known=None, inputs=_jsonable(cand), case=case, native=list(nat), confirmed=True)
            block = [t != m.eval(t, model_completion=True) for t in terms]
            if not block:
                return None
            cs.add(z3.Or(*block))
    except BaseException as ex:
        if os.environ.get("PYSYM_TRACE"):
            traceback.print_exc()
        return None
    return None


def _terms(v):
    from pysym.values import SymBool, SymBV, SymBytes, SymFloat, SymInt, SymStr
    if isinstance(v, (SymInt, SymBV, SymBool)):
        return [v.t]
    if isinstance(v, SymStr):
        return [t for c in v.cs for t in _terms(c)]
    if isinstance(v, SymBytes):
        return [t for c in v.bs for t in _terms(c)]
    if isinstance(v, SymFloat):
        if v.dec is not None:
            return [t for d in v.dec[1] for t in _terms(d)] + _terms(v.dec[0])
        if v.t is not None:
            return [v.t]
    if isinstance(v, (list, tuple)):
        return [t for x in v for t in _terms(x)]
    return []


def _where():
    tb = traceback.extract_tb(sys.exc_info()[2])
    return " <- ".join(f"{os.path.basename(f.filename)}:{f.lineno}" for f in tb[-4:])


def _jsonable(x):
    if isinstance(x, dict):
        return {str(k): _jsonable(v) for k, v in x.items()}
    if isinstance(x, (list, tuple)):
        return [_jsonable(v) for v in x]
    if isinstance(x, (bytes, bytearray)):
        return {"__bytes__": bytes(x).hex()}
    if isinstance(x, float):
        if x != x or x in (float("inf"), float("-inf")):
            return {"__float__": repr(x)}
        return x
    if isinstance(x, (int, str, bool)) or x is None:
        return x
    return {"__repr__": repr(x)}


def from_jsonable(x):
    if isinstance(x, dict):
        if "__bytes__" in x:
            return bytes.fromhex(x["__bytes__"])
        if "__float__" in x:
            return float(x["__float__"])
        return {k: from_jsonable(v) for k, v in x.items()}
    if isinstance(x, list):
        return [from_jsonable(v) for v in x]
    return x


# ------------------------------------------------------------------------------- main
def run_property(pid, tier, only=None, jobs=16, seed=0, budget_s=None):
    global SPEC, TIER, KNOWN
    t_start = time.time()
    TIER = tier
    SPEC = importlib.import_module("specs." + pid.lower())
    kf = load_known()
    KNOWN = kf.get("findings", [])
    tier_names = getattr(SPEC, "TIER_HARNESSES", {}).get(tier)
    harnesses = [h for h in SPEC.HARNESSES if (only is None and (tier_names is None or h.name in tier_names)) or (only and h.name in only)]
    total_budget = budget_s or getattr(SPEC, "BUDGET_S", {}).get(tier, 900 if tier == "quick" else 3600)

    agg = {h.name: dict(stats={}, violations=[], witnesses=[], mismatches=[], sites={}, errors=[], roots=0, lemmas=[])
           for h in harnesses}
    funcs = {}
    queue = []
    for h in harnesses:
        rs = roots_of(h, tier)
        agg[h.name]["roots"] = len(rs)
        for case in rs:
            queue.append((h.name, case, [[]], 3, 5.0, h.witness_cap, seed))
    import tempfile
    from pysym import ops as _ops
    lf = tempfile.NamedTemporaryFile(prefix="pysym_lemmas_", suffix=".jsonl", delete=False)
    lf.close()
    _ops.LEMMA_CACHE_FILE = lf.name
    ctx = mp.get_context("fork")
    pool = ctx.Pool(jobs)
    pending = []
    timed_out = False
    try:
        while queue or pending:
            while queue and len(pending) < jobs * 2:
                pending.append(pool.apply_async(worker_task, (queue.pop(),)))
            done = [p for p in pending if p.ready()]
            if not done:
                time.sleep(0.02)
                if time.time() - t_start > total_budget:
                    timed_out = True
                    break
                continue
            for p in done:
                pending.remove(p)
                r = p.get()
                a = agg[r["harness"]]
                for k, v in r["stats"].items():
                    a["stats"][k] = a["stats"].get(k, 0) + v
                a["violations"].extend(r["violations"])
                if len(a["witnesses"]) < 12:
                    a["witnesses"].extend(r["witnesses"][: 12 - len(a["witnesses"])])
                a["mismatches"].extend(r["mismatches"])
                a["lemmas"].extend(r["lemmas"])
                for k, v in r["sites"].items():
                    a["sites"][k] = a["sites"].get(k, 0) + v
                funcs.update(r["funcs"])
                if r["error"]:
                    a["errors"].append(dict(case=r["case"], error=r["error"]))
                left = r["leftover"]
                if left and (not r["error"] or r["error"].startswith("solver-unknown on ")):
                    # split the leftover frontier into several tasks; witnesses are only collected early on
                    nchunks = min(len(left), max(1, jobs))
                    for i in range(nchunks):
                        chunk = left[i::nchunks]
                        queue.append((r["harness"], r["case"], chunk, 400, 6.0, 2, seed))
    finally:
        pool.terminate()
        pool.join()
        try:
            os.unlink(lf.name)
        except OSError:
            pass
    wall = time.time() - t_start
    return finish(pid, tier, seed, harnesses, agg, funcs, wall, timed_out, kf)


def _promote_native(h, nat, inputs, kf, pid, seen, fresh):
    """The symbolic run and the native run of one concrete input disagree (a harness error: the engine could not follow
    the code) - but when the NATIVE run of the harness fails, the real code has just been shown to break the property on
    that input, whatever the engine thought. It is reported as a violation as well (never for a harness that carries a
    known finding: the region test needs the symbolic path)."""
    if not nat or nat[0] not in ("violation", "escaped"):
        return
    if any(k["property"] == pid and (k["harness"] == h.name or (k.get("harness_prefix") and h.name.startswith(k["harness"])))
           for k in kf.get("findings", [])):
        return
    site = (str(nat[1]) + ":(native replay)") if nat[0] == "violation" else "escaped:" + str(nat[1])
    if any(hh is h and vv["site"] == site for hh, vv in fresh):
        return
    fresh.append((h, dict(site=site, known=None, inputs=inputs, native=list(nat), confirmed=True)))


def finish(pid, tier, seed, harnesses, agg, funcs, wall, timed_out, kf):
    out_lines = []
    exit_code = 0
    inconclusive = []
    harness_errors = []
    fresh = []
    known_hit = {}
    os.makedirs(os.path.join(ROOT, "replays"), exist_ok=True)
    os.makedirs(os.path.join(ROOT, "evidence"), exist_ok=True)
    tot = dict(paths=0, decisions=0, checks=0, solver_s=0.0, assert_queries=0, assert_unsat=0, assert_s=0.0,
               witness_replays=0, aborted=0, lemma_s=0.0, cc_agree=0, cc_undecided=0, cc_disagree=0, cc_skipped=0,
               unrealised_model_choices=0)
    hsummaries = []
    samples = []
    for h in harnesses:
        a = agg[h.name]
        st = a["stats"]
        for k in tot:
            tot[k] += st.get(k, 0)
        if a["errors"]:
            inconclusive.append(f"{h.name}: {a['errors'][0]['error']} (case {a['errors'][0]['case']})")
        if a["mismatches"]:
            harness_errors.append(f"{h.name}: witness replay mismatch {json.dumps(a['mismatches'][0])[:600]}")
            for mm in a["mismatches"][:50]:
                _promote_native(h, mm.get("native"), mm["inputs"], kf, pid, None, fresh)
        # vacuity: at least one path, every assert site of the harness reached
        if st.get("paths", 0) == 0 and not a["errors"]:
            inconclusive.append(f"{h.name}: vacuous (no feasible path)")
        asserts = [s for s in a["sites"] if s.startswith("L") or s.startswith("cover:")]
        if not asserts and not a["errors"] and not any(s.startswith("escaped") for s in a["sites"]):
            inconclusive.append(f"{h.name}: vacuous (no assertion reached)")
        seen = set()
        for v in a["violations"]:
            if v["known"]:
                if v["confirmed"]:
                    known_hit.setdefault(v["known"], v)
                else:
                    harness_errors.append(f"{h.name}: known-finding counterexample did not replay: {json.dumps(v)[:400]}")
                continue
            key = (h.name, v["site"])
            if not v["confirmed"]:
                harness_errors.append(f"{h.name}: counterexample did not reproduce natively: {json.dumps(v)[:600]}")
                _promote_native(h, v.get("native"), v["inputs"], kf, pid, seen, fresh)
                continue
            if key in seen:
                continue
            seen.add(key)
            fresh.append((h, v))
        hsummaries.append(dict(harness=h.name, bounds=h.bounds, inputs={k: d.describe() for k, d in h.input_domains(tier).items()},
                               roots=a["roots"], paths=st.get("paths", 0), pruned_by_assume=st.get("aborted", 0),
                               branch_decisions=st.get("decisions", 0), solver_checks=st.get("checks", 0),
                               solver_s=round(st.get("solver_s", 0.0), 2), assertion_queries=st.get("assert_queries", 0),
                               assertion_unsat=st.get("assert_unsat", 0), witness_replays=st.get("witness_replays", 0),
                               assert_sites=sorted(s for s in a["sites"] if not s.startswith("cover:"))[:40],
                               cover=sorted(s for s in a["sites"] if s.startswith("cover:")),
                               lemmas=a["lemmas"], outside_claim=h.outside, stubs=h.stubs))
        for w in a["witnesses"][:3]:
            samples.append(dict(harness=h.name, **w))
    if timed_out:
        inconclusive.append("time budget exceeded before the path tree was exhausted")

    for h, v in fresh:
        rp = os.path.join(ROOT, "replays", f"{pid}_{h.name}_{abs(hash(v['site'])) % 10**8}.json")
        json.dump(dict(property=pid, spec="specs." + pid.lower(), harness=h.name, site=v["site"], inputs=v["inputs"],
                       native=v["native"]), open(rp, "w"), indent=1)
        out_lines.append(f"VIOLATION property={pid} replay={rp}")
        out_lines.append(f"  harness={h.name} site={v['site']} inputs={json.dumps(v['inputs'])[:300]}")
    for k in kf.get("findings", []):
        if k["property"] != pid:
            continue
        if k["id"] in known_hit:
            out_lines.append(f"KNOWN-FINDING: property={pid} {k['what']} [{k['id']}; e.g. {json.dumps(known_hit[k['id']]['inputs'])[:200]}]")
    if fresh:
        exit_code = 1
    elif harness_errors:
        exit_code = 3
    elif inconclusive:
        exit_code = 2
    for m in harness_errors:
        out_lines.append(f"HARNESS-ERROR property={pid} {m}")
    for m in inconclusive:
        out_lines.append(f"INCONCLUSIVE property={pid} reason={m}")

    n_states = max(1, tot["paths"])
    ev = dict(
        property_id=pid, tier=tier, seed=seed, level="model_checking",
        coverage=dict(
            states=n_states, transitions=max(1, tot["decisions"]),
            traces_validated_against_impl=tot["witness_replays"],
            samples=samples or [{"note": "no witness collected"}],
            obligations=tot["assert_queries"], discharged=tot["assert_unsat"],
            explanation="bounded symbolic execution (pysym) of the real numbers_parser source with z3; states = complete "
                        "paths explored, transitions = symbolic branch decisions, obligations = assertion queries "
                        "(PC and not cond), discharged = those answered unsat",
            solver=dict(engine="z3 " + _z3v(), checks=tot["checks"], solver_s=round(tot["solver_s"], 2),
                        assertion_solver_s=round(tot["assert_s"], 2), lemma_s=round(tot["lemma_s"], 2), unknown=0 if not inconclusive else None,
                        second_solver=dict(engine="cvc5 1.0.3 (binary)", sampled_unsat_queries=tot["cc_agree"] + tot["cc_undecided"] + tot["cc_disagree"],
                                           agree=tot["cc_agree"], undecided_or_unparsed=tot["cc_undecided"], disagree=tot["cc_disagree"],
                                           skipped_fp_theory=tot["cc_skipped"],
                                           note="every 499th (quick) / 97th (thorough) unsat assertion query per worker (VERIF_CROSSCHECK=n: every n-th); "
                                                "a disagreement makes the run inconclusive"),
                        unrealised_model_choices=tot["unrealised_model_choices"]),
            harnesses=hsummaries if len(hsummaries) <= 80 else hsummaries[:40] + [dict(note="%d further harnesses of the same shape omitted from this list (all counted in the totals)" % (len(hsummaries) - 40))],
            harness_count=len(hsummaries),
            functions_interpreted=dict(sorted((k, v) for k, v in funcs.items() if not k.startswith("specs."))),
            exhaustive=False,
            result=("violation" if exit_code == 1 else "harness-error" if exit_code == 3 else "inconclusive" if exit_code == 2 else "holds-within-bounds"),
            known_findings_hit=sorted(known_hit),
            messages=out_lines[:20],
        ),
        assumptions=sorted(set(sum([h.outside + h.stubs + (["bounds: " + h.bounds] if len(harnesses) <= 80 else []) for h in harnesses], []))) + list(getattr(SPEC, "ASSUMPTIONS", [])),
        wall_s=round(wall, 2),
        violations=len(fresh),
    )
    json.dump(ev, open(os.path.join(ROOT, "evidence", f"{pid}.json"), "w"), indent=1)
    for line in out_lines:
        print(line)
    print(f"[{pid} {tier}] harnesses={len(harnesses)} paths={tot['paths']} decisions={tot['decisions']} "
          f"assert-queries={tot['assert_queries']} unsat={tot['assert_unsat']} witness-replays={tot['witness_replays']} "
          f"solver={tot['solver_s']:.1f}s wall={wall:.1f}s exit={exit_code}")
    return exit_code


def _z3v():
    import z3
    return z3.get_version_string()


def main():
    ap = argparse.ArgumentParser()
    ap.add_argument("property")
    ap.add_argument("--tier", default=os.environ.get("VERIF_TIER", "quick"))
    ap.add_argument("--harness", action="append")
    ap.add_argument("--jobs", type=int, default=min(16, os.cpu_count() or 4))
    ap.add_argument("--budget", type=float, default=None)
    a = ap.parse_args()
    seed = int(os.environ.get("VERIF_SEED", "0") or 0)
    sys.exit(run_property(a.property.upper(), a.tier, a.harness, a.jobs, seed, a.budget))


if __name__ == "__main__":
    main()
