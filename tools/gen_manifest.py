#!/usr/bin/env python3
"""Regenerates /verif/MANIFEST.json from the table below (and validates it)."""
import json
import os
import sys

ROOT = os.path.dirname(os.path.dirname(os.path.abspath(__file__)))

TECH = "bounded symbolic execution of the real Python source (pysym AST interpreter) + z3 SMT queries; native replay of counterexamples and path witnesses"

# property -> (design_ref, level text, level note)
CLAIMED = {
    "C19": ("DESIGN.md §4 C19",
            "For every Python int index (unbounded) and 0..4 items, and for all 1-2 character printable-ASCII names, "
            "(names over printable ASCII and the letters ss-sharp, long s, capital and final sigma) z3 shows lookup/membership of the real ItemsList agree with list semantics; add_table / add_sheet after the history "
            "[nothing | membership test | automatic add] -> optional rename give fresh automatic names, refuse case-variant duplicates "
            "without change and append exactly one item; bounded claim, not a proof.",
            "trusted: pysym interpreter (validated by native witness replay on every run), z3; outside: save/reopen order, "
            "longer/non-ASCII names"),
}

CLAIMED["C10"] = ("DESIGN.md §4 C10",
    "Over symbolic ranges (rows 0..10^6, columns 0..18277, both '$' flags, every negative int) z3 shows the real xl_* "
    "functions are mutually inverse, bijective base-26, order preserving, collapse ranges iff corners coincide, and agree "
    "with the tokenizer's second decoder; float division discharged by a QF_BVFP lemma.",
    "trusted: pysym interpreter + regex alphabet-partition model + lemma cut; outside: columns beyond 'ZZZ', rows beyond 10^6")
CLAIMED["C04"] = ("DESIGN.md §4 C04",
    "116 fully symbolic record bytes decoded by the real Cell._from_storage are compared field by field with a reference "
    "walker written from the published layout (flag subsets up to a popcount bound + all-ones); encode/decode round trip of "
    "the real _to_buffer/_from_storage over presence subsets of the 12 optional ids with symbolic 32-bit ids.",
    "trusted: pysym, struct model, model stubs for string/rich-text tables; decimal128 arithmetic is an uninterpreted "
    "function here (C01 decides it); flag words beyond the popcount bound are outside the claim")

CLAIMED["C18"] = ("DESIGN.md §4 C18",
    "Every string of up to 3 arbitrary Unicode scalar values is tokenized symbolically by the real "
    "Tokenizer: z3 shows the only escaping exception is TokenizerError and the token texts concatenate to the input; quoted "
    "strings over a 8-symbol alphabet up to length 5 and quoted names / quoted ranges (escaped quotes in any end point) over "
    "the alphabet ' : a of length 7 (8 with space, thorough) are never split; formulas rendered by the reader's own handlers are accepted; "
    "a formula tokenized after another (accepted or rejected) formula is tokenized as if alone (2+2 characters, thorough 3+3); references by "
    "header label rendered by the real CellRange code (labels of 1-3 characters over a - ' space) are accepted (known finding for "
    "apostrophes and for quoted labels behind a table prefix).",
    "trusted: pysym, regex alphabet-partition model, float(str) outcome model; outside: longer strings, fixture formulas; reader output limited to string+integer+reference operands, one operator, one function")
CLAIMED["C11"] = ("DESIGN.md §4 C11",
    "Row/column arguments are unbounded symbolic ints: z3 shows Table.cell, write, set_cell_style (through "
    "_validate_cell_coords) and iter_rows/iter_cols (cell objects and values_only) of the real code address exactly the stated cell/rectangle, agree with "
    "the A1 form, raise IndexError outside, and grow the table to exactly the needed size (small-scope shapes); symbolic A1 "
    "text of 1-3 letters and 1..8 digits with optional '$' names the position its letters and digits say and is refused at/after the limits; "
    "a reference used again after the table shrank grows it again, and a reference read again after an insertion or deletion names "
    "the cell now at that position.",
    "trusted: pysym; Table built directly over real cells with a stub model; outside: growth > 3, shapes beyond 3x2, "
    "set_cell_formatting/set_cell_border beyond the shared coordinate check, lower-case A1 spellings")

CLAIMED["C03"] = ("DESIGN.md §4 C03",
    "One inductive step from an arbitrary valid table state: for add_row/add_column/delete_row/delete_column/write with "
    "every integer start index (or None), counts 1..3 and a default value that is absent, a text, the number 0 or the empty text, z3 shows the real Table code yields exactly the "
    "grid a plain list-of-lists yields, restores the representation invariant (each cell reports its own position), and "
    "rejects out-of-range starts without change. By induction: histories of any length over these operations (small-scope shapes). "
    "Two consecutive real model.add_table calls (over an attribute-bag object store) give tables that share none of their "
    "per-table objects (string/style/formula/format lists, header buckets, stroke sidecar); a second save of one open document "
    "rebuilds the string list from the current cells (no stale keys).",
    "trusted: pysym; stub model (row/column counters, empty merge map); protobuf messages as attribute bags in the clone harness; "
    "outside: save/reopen, add_sheet, contents of cloned protobuf objects, isolation between documents, shapes beyond 3x2")
CLAIMED["C12"] = ("DESIGN.md §4 C12",
    "All rectangles in tables up to 3x3 (and disjoint pairs given as a list): z3 shows anchor, placeholders, untouched cells "
    "and merge_ranges of the real merge_cells/_set_merge are exactly the rectangle; the real merge-map writer/reader pair is "
    "checked as a codec over symbolic origins within the table limits; a merge recorded by a merge-owner dependency and a merge "
    "saved to the region map are both seen by a fresh reader; columns appended to the right of a rectangle leave it alone; "
    " merge_ranges read between two merges lists exactly the rectangles so far; "
    "one insertion step after a merge. Two known findings.",
    "trusted: pysym; record stubs for protobuf CellID/TableSize (uint32 range enforced); outside: reload through real archives")

CLAIMED["C06"] = ("DESIGN.md §4 C06",
    "Real DataLists/table_string code over 1..4 lookup-list entries with symbolic distinct keys in any order (lookup finds "
    "the entry, re-keying is injective); narrow vs wide row offsets decode identically; every stored row is reported at the "
    "index its record declares for any subset of stored rows / header records / zero-cell row records / tile split (4 rows); "
    "a second save with different contents re-keys the string list consistently.",
    "trusted: pysym; object store and protobuf records are attribute bags; outside: zip member order, compression method, "
    "package-folder form, chunk boundaries (C05)")

CLAIMED["C08"] = ("DESIGN.md §4 C08",
    "One step of the formula stack machine per node kind, driven through the real TableFormulas.formula dispatch with the "
    "node type symbolic over the real enum and operands arbitrary symbolic strings: operator glyph and operand order, "
    "function names over the real map, list/array joining, string/boolean/integer literals, qualified ranges; two-step "
    "composition for all operator pairs. By induction over the post-fix array this covers programs of any depth.",
    "trusted: pysym; nodes are attribute bags; model stub echoes reference text; outside: date literals, formula_ast, Numbers' own display")

CLAIMED["C17"] = ("DESIGN.md §4 C17",
    "Faults are symbolic: archive members of 0..8 arbitrary bytes through the real _store_blob/is_iwa_file, a zip container "
    "whose every member read may fail in each way the stdlib documents, plist parsing that may fail or lack the key, decoders "
    "that may raise any Exception or return archives of any small shape: z3 shows only FileError/FileFormatError/"
    "UnsupportedError leave IWork.open, _store_blob and ObjectStore.__init__.",
    "trusted: pysym; environment stubs (ZipFile, plistlib.loads, IWAFile.from_buffer outcome, Path) active in symbolic and "
    "native runs alike; outside: which bytes make zlib/snappy/protobuf fail, package-folder form, OS-level I/O errors")

CLAIMED["C14"] = ("DESIGN.md §4 C14",
    "Each numeric date/time directive of the real DATETIME_FIELD_MAP is rendered for symbolic clock fields (all hours, "
    "minutes, seconds, microseconds) and symbolic calendar fields (all valid dates of years 1000..9999): z3 shows the "
    "text has the documented width and denotes the field; the real format scanner equals a reference scanner on every "
    "format string of <= 3/4 arbitrary characters; durations read back unit by unit equal the duration truncated to the "
    "smallest unit: whole seconds for all unit pairs and styles, and millisecond-resolution durations (0..10^7 ms quick; "
    "thorough: all unit pairs over the windows 0..10^7 ms and +-2 s around one week, two weeks and ten years) incl. the "
    "millisecond unit and automatic units, on an IEEE-754 error-enclosure model of the floats. The week directives W (week of "
    "the month) and ww (week of the year) and the weekday / month names (EEEE, EEE, MMMM, MMM) are decided for all dates of years 1000..9999.",
    "trusted: pysym, exact-integer datetime/strftime model (C locale), lemma cut for int(d/k), binary64 round-to-nearest "
    "enclosure (forward error analysis in linear real/integer arithmetic: sound over-approximation); outside: the era directive G, locales other than C/English, "
    "durations that are not whole milliseconds, negative durations")

CLAIMED["C01"] = ("DESIGN.md §4 C01",
    "Record-level write/read: the real Cell._from_value -> _to_buffer -> _from_storage (incl. decimal128 pack/unpack) is "
    "executed for every int |n|<10^15, every float given by 1..15 symbolic significant digits at each decimal exponent "
    "-290..289 (quick: every 10th + boundaries), both bools, whole-second datetimes of years 1..9999, every microsecond "
    "date-time 1900..2100 and every duration within +-100 years at microsecond resolution: z3 shows the decoded value equals "
    "the written one exactly (rational equality => equal doubles; sub-second values through the IEEE-754 enclosure model).",
    "trusted: pysym; repr/Decimal digit contract; int/int division correctly rounded; sigfig identity on <=15 digits; string "
    "table stub; binary64 round-to-nearest enclosure + CPython's timedelta(seconds=float) algorithm; outside: "
    "tiles/protobuf/snappy/zip/reopen, sub-second date-times outside 1900..2100, text characters")

CLAIMED["C02"] = ("DESIGN.md §4 C02",
    "Per-record re-save fix-point on the real codec: for 116 symbolic record bytes of each storable kind carrying only "
    "fields the writer knows, decode -> encode -> decode gives the same class, payload and ids, reading accessors in "
    "between changes nothing, and a second encode is byte-identical; the string list is re-keyed consistently by a second save of "
    "one open document. The document-level quantifier is outside this technique.",
    "trusted: pysym; decimal128 pack/unpack treated as mutually inverse uninterpreted functions here (C01 decides values); "
    "string table stub; outside: whole documents, fixtures, formula text, bullets, merge maps, IWA copy-back")

CLAIMED["C16"] = ("DESIGN.md §4 C16",
    "The real row_height/col_width readers and recalculate_row_headers/recalculate_column_headers writers are run as a "
    "read-write-reopen cycle (1..3 times) over header records with symbolic stored sizes 1..10000 points, borders of width "
    "0/1/3, queried or not, set through the API or not, the sized column (or row) with cells of its own or completely covered by a "
    "merge: z3 shows sizes come back equal and every row/column keeps its header record (known finding: drift with borders "
    ">= 2); header-count setters reject every int outside 0..min(size,5) without change.",
    "trusted: pysym, exact half-integer float model; header records are attribute bags; outside: names, captions, "
    "visibility, coordinates, non-integral stored sizes")

CLAIMED["C07"] = ("DESIGN.md §4 C07",
    "The real recalculate_row_info (offsets in bounds, 4-byte aligned, increasing, decoded back by the library's own "
    "reader), the real tile loop of recalculate_table_data for a symbolic number of rows across the 256/512 boundaries "
    "(every row in exactly one tile at its declared index; a tile list that starts with stale entries ends with exactly the "
    "tiles of this save), and the real ObjectStore id allocation for symbolic existing ids (fresh, distinct, high-water mark updated).",
    "trusted: pysym; protobuf records and the object store are attribute bags, other save steps are no-op stubs; outside: "
    "reference closure, package metadata listing, re-openability by Numbers")

CLAIMED["C13"] = ("DESIGN.md §4 C13",
    "Number bases: the real _format_base/_twos_complement output, read back in its base by an independent reader, equals the "
    "value for every integer |n| <= 2^40 (sign-and-magnitude, bases 2..36, zero padding), every n + k/4 (rounded to a "
    "neighbour) and every negative n > -10^15 in two's complement (bases 2/8/16, smallest width >= 32 bits). Fractions: the "
    "real _format_fraction on every multiple of 1/16 (fixed denominators) and of 1/8 (n-digit accuracies) reads back as the "
    "value rounded to the shown denominator, sign and whole part kept. Scientific: the real _format_scientific on every float "
    "of 1..15 significant digits reads back as the value rounded to places+1 digits in d.dddE+XX form. Decimal/percent: the real "
    "_format_decimal (and Cell._custom_format with the value * 100 product carrying symbolic rounding noise) reads back as the "
    "value rounded to the decimals shown, which are as many as asked for; _custom_format routes every FormatType to its formatter, "
    "and a cell re-formatted after it was read shows its current format on every later read; "
    "separators, negative styles, symbols, accounting layout and percent only decorate.",
    "trusted: pysym; sigfig's numeric contract on digit vectors (15 significant digits, half away from zero, grouping), compared "
    "with the real sigfig on every native replay; float product noise bound (<= 2 ulp, direction symbolic); math.log2 thresholds taken from the running interpreter; float.__format__ '.NE' = correctly rounded decimal "
    "(documented), exact decimal ties explored both ways; Fraction.limit_denominator contract on multiples of 1/8; outside: "
    "custom number patterns, star ratings, fractions of values not representable with the allowed denominator")

CLAIMED["C05"] = ("DESIGN.md §4 C05",
    "Container arithmetic of the real IWACompressedChunk.to_buffer / _decompress_all / is_iwa_file with the uncompressed "
    "stream an opaque buffer of SYMBOLIC length (0..131073 quick, 0..262145 thorough) and payload lengths symbolic: every "
    "frame has marker 0x00, a 3-byte length equal to its payload, at most 65536 data bytes, frames' data concatenates to "
    "the stream; decoding k<=3 frames of symbolic lengths returns the per-frame data in order. Segment layer: the real "
    "IWAArchiveSegment.to_buffer/from_buffer with header and message sizes symbolic in 0..2^21 (all varint widths): the "
    "length prefix decodes to the header size, recorded message lengths equal the message sizes, decoding returns the same "
    "header, messages and remainder (protobuf's pure-Python varint helpers interpreted from their source); in a mergeable segment every "
    "patch message is decoded with the class of its own base message.",
    "trusted: pysym rope model; snappy contract stub (compress bound, uncompress inverse); ArchiveInfo/message records as "
    "attribute bags with opaque serialised forms; outside: protobuf/snappy bytes, fixture archives, unknown-field preservation")

CLAIMED["C09"] = ("DESIGN.md §4 C09",
    "The real node_to_ref -> CellRange.__str__ -> xl_rowcol_to_cell chain is run for symbolic host cells and stored "
    "offsets/coordinates anywhere inside the table limits with all absolute-flag combinations (single cells; rectangles in "
    "the row windows [0,100) and around 0x7FFF / 0xFFFF in the quick tier, all 10^6 rows in the thorough tier), "
    "whole-row / whole-column spans and single-axis references for every row / column), and the printed text is read back "
    "by an independent A1 parser; cross-table references over 3 sheets x 2+2+1 tables with symbolic names resolve to exactly the "
    "stored table; whole-column references by header label (real ScopedNameRefCache) over 3 tables x 2 labelled columns / rows with six "
    "symbolic labels (under one or two header rows) resolve - narrower scopes shadowing wider ones - to exactly the stored column; a table "
    "rename and every real add_table call invalidate the name cache.",
    "trusted: pysym; formula nodes are attribute bags; model stub for names and header cells; outside: row labels, labels with "
    "operator characters or quotes, uuid map from archives, cache invalidation history")

CLAIMED["C15"] = ("DESIGN.md §4 C15 (partial)",
    "Borders only: through the real Table.set_cell_border, model.set_cell_border, cell_for_stroke and CellBorder "
    "setters on a 3x3 table (and a 4x3 table with a merged block) with symbolic positions: a stroke is reported by its cell "
    "and as the opposite side by the neighbour, nothing else changes, and of two overlapping strokes (from either cell "
    "sharing the edge) the later wins (sides given singly or as a list); the real add_stroke run patching for 2..3 strokes of every start and length along a "
    "line of 6 cells: the stored runs, read back with 'highest order wins', show at every position the most recent stroke "
    "covering it (saved file agrees with the open document); Style objects: assigning any one of the 16 public attributes stores "
    "exactly it and marks exactly the style archive(s) it lives in for rewriting, a style read from a cell carries attribute by "
    "attribute what the model reports, wrongly typed attributes are refused; on save (real update_cell_styles) every styled cell "
    "is given a cell-style archive built from its own current cell-level attributes, for any two background colours in one table "
    "and again after a change between two saves; a style written by the real add_paragraph_style / update_paragraph_style / add_cell_style "
    "and read by the real Style.from_storage and cell_* accessors comes back attribute by attribute (binary32-representable sizes; known "
    "finding for the others); a stroke written by the real create_stroke reads back with its width, colour, line style, extent and stamp. "
    "The protobuf bytes of the archives are NOT claimed.",
    "trusted: pysym; stroke run / layer records as attribute bags, create_stroke reduced to its contract; outside: style "
    "archives (nested protobuf), images, fonts, interior edges of merged blocks")

CLAIMED["C20"] = ("DESIGN.md §4 C20 (partial)",
    "Per-cell and bookkeeping part of the CSV import only: the real Converter._transform_data is run on cell texts of up to 3 "
    "(thorough: 4) arbitrary Unicode characters with --whitespace and --no-header on/off: z3 shows a cell becomes a number only "
    "when float() gives a finite value - nan / inf / infinity spellings stay text - and that text is kept character for character "
    "(or whitespace-squeezed as documented); rows keep file order (reversed as a whole with --reverse) and one value per column "
    "(known finding: duplicate header names); --delete / --rename touch exactly the named column; a cell spelling a finite float "
    "(1-3 symbolic digits, decimal exponents -5..300, repr() spelling) is stored, through the real cell codec, as exactly that float, "
    "and cat-numbers' real cell_as_string writes a number of <= 15 significant digits as text that reads back as the same number. "
    "The csv module, the Document save/reopen and the rest of the cat-numbers export are NOT covered.",
    "trusted: pysym; float(str) decided by the real float() on class-representative strings after forking every symbolic character "
    "into its lexical class; Converter built without reading a file; outside: csv reader/writer (C level), document I/O and export, "
    "other spellings of a number than repr()'s, --date columns, command-line error reporting")

NOT_APPLICABLE = {}


def main():
    props = [json.loads(l) for l in open(os.path.join(ROOT, "properties.jsonl"))]
    checks = []
    for p in props:
        pid = p["id"]
        if pid not in CLAIMED:
            continue
        ref, text, note = CLAIMED[pid]
        checks.append(dict(
            property_id=pid,
            quick_cmd=f"./check {pid} --tier quick",
            thorough_cmd=f"./check {pid} --tier thorough",
            evidence_file=f"/verif/evidence/{pid}.json",
            replay_cmd_template="./replay {path}",
            engine="pysym",
            level_claimed=dict(category="model_checking", text=text, design_ref=ref),
            level_note=note,
            technique=TECH,
        ))
    na = []
    for p in props:
        if p["id"] not in CLAIMED:
            na.append(dict(property_id=p["id"], reason=NOT_APPLICABLE.get(p["id"], "check not built yet in this framework (work in progress)")))
    man = dict(
        version=1,
        setup_cmd="sh ./setup.sh",
        hooks=dict(guard="NUMBERS_PARSER_VERIF", enable="no hooks are needed: stubs live in /verif/specs; the checks import /repo/src directly",
                   baseline_off_cmd="cd /repo && /venv/bin/python -m pytest -ra -q -p no:cacheprovider --timeout=900 --continue-on-collection-errors",
                   source_commits=[], add_only=True),
        engines=[dict(name="pysym", path="/verif/pysym", serves_properties=sorted(CLAIMED),
                      kind_free_text="symbolic interpreter over the repository's own Python ASTs; z3 decides branch feasibility and assertions")],
        checks=checks,
        notes="Exit codes of every check: 0 held within bounds, 1 VIOLATION (natively replayed), 2 INCONCLUSIVE, 3 HARNESS-ERROR. See DESIGN.md.",
        not_applicable=na,
    )
    json.dump(man, open(os.path.join(ROOT, "MANIFEST.json"), "w"), indent=1)
    try:
        import jsonschema
        jsonschema.validate(man, json.load(open("/root/.vp/MANIFEST.schema.json")))
        print("MANIFEST.json valid;", len(checks), "checks,", len(na), "not_applicable")
    except ImportError:
        print("written (jsonschema not available)")


if __name__ == "__main__":
    main()
