"""str / bytes / int / float methods on symbolic receivers or with symbolic arguments."""
import ast
import sys

import z3

from .values import (LazyStr, SymBool, SymBV, SymBytes, SymFloat, SymInt, SymStr, Unsupported, as_bytes_list, chars,
                     deep_sym, is_sym, mkbool, mkbytes, mkint, mkstr, zbool, zint)

_TABLES = {}


def _ranges_where(pred):
    rs = []
    start = None
    for c in range(0x110000):
        m = pred(chr(c))
        if m and start is None:
            start = c
        if not m and start is not None:
            rs.append((start, c - 1))
            start = None
    if start is not None:
        rs.append((start, 0x10FFFF))
    return rs


def pred_ranges(name):
    """code point ranges where str.<name>() holds for the single character (from the running interpreter)"""
    if name not in _TABLES:
        _TABLES[name] = _ranges_where(lambda ch: getattr(ch, name)())
    return _TABLES[name]


def case_map(name):
    """dict code point -> mapped code point for chars whose lower()/upper() is a different single char;
    plus the set of code points whose mapping changes length"""
    key = "map:" + name
    if key not in _TABLES:
        mp, multi = {}, set()
        for c in range(0x110000):
            if 0xD800 <= c <= 0xDFFF:
                continue
            r = getattr(chr(c), name)()
            if len(r) != 1:
                multi.add(c)
            elif ord(r) != c:
                mp[c] = ord(r)
        _TABLES[key] = (mp, multi)
    return _TABLES[key]


def in_ranges(eng, c, ranges):
    r = False
    for lo, hi in ranges:
        r = eng.or_(r, eng.and_(eng.cmp("GtE", c, lo), eng.cmp("LtE", c, hi)) if lo != hi else eng.cmp("Eq", c, lo))
    return r


def char_pred(eng, c, name):
    if isinstance(c, int):
        return getattr(chr(c), name)()
    return eng.truth(in_ranges(eng, c, pred_ranges(name)))


def map_char(eng, c, name):
    if isinstance(c, int):
        r = getattr(chr(c), name)()
        if len(r) != 1:
            raise Unsupported("case mapping changes length")
        return ord(r)
    mp, multi = case_map(name)
    if isinstance(c, SymInt):
        # a character statically known to be ASCII: one if-then-else term, no fork
        lo, hi = eng.ibounds(c.t)
        if lo is not None and hi is not None and lo >= 0 and hi < 128:
            a, b, d = (65, 90, 32) if name == "lower" else (97, 122, -32)
            return eng.define_var("case", z3.If(z3.And(c.t >= a, c.t <= b), c.t + d, c.t), min(lo, lo + d), max(hi, hi + d))
    # ASCII fast path
    if name == "lower":
        if eng.truth(eng.and_(eng.cmp("GtE", c, 65), eng.cmp("LtE", c, 90))):
            return eng.op("Add", c, 32)
    else:
        if eng.truth(eng.and_(eng.cmp("GtE", c, 97), eng.cmp("LtE", c, 122))):
            return eng.op("Sub", c, 32)
    if eng.truth(eng.cmp("Lt", c, 128)):
        return c
    # non-ASCII: changed or not
    changed = sorted(set(mp) | multi)
    rs = []
    for x in changed:
        if x < 128:
            continue
        if rs and rs[-1][1] == x - 1:
            rs[-1][1] = x
        else:
            rs.append([x, x])
    if eng.truth(in_ranges(eng, c, rs)):
        # a non-ASCII cased character: one path per value (the alphabet has to keep these few), the real mapping decides
        v = eng.concretize_int(c, "non-ASCII cased character", limit=48)
        r = getattr(chr(v), name)()
        if len(r) != 1:
            raise Unsupported("case mapping changes length")
        return ord(r)
    return c


def casefold_chars(eng, cs):
    """str.casefold: ASCII as lower(); a non-ASCII character whose folding differs from itself is taken value by value
    (the folded form may be longer: 'ß' -> 'ss')"""
    global _FOLD_RANGES
    if _FOLD_RANGES is None:
        rs = []
        for x in range(128, 0x110000):
            if 0xD800 <= x <= 0xDFFF:
                continue
            if chr(x).casefold() != chr(x):
                if rs and rs[-1][1] == x - 1:
                    rs[-1][1] = x
                else:
                    rs.append([x, x])
        _FOLD_RANGES = rs
    out = []
    for c in cs:
        if isinstance(c, int):
            out.extend(ord(ch) for ch in chr(c).casefold())
            continue
        if eng.truth(eng.cmp("Lt", c, 128)):
            out.append(map_char(eng, c, "lower"))
            continue
        if eng.truth(in_ranges(eng, c, _FOLD_RANGES)):
            v = eng.concretize_int(c, "non-ASCII character with a case folding", limit=48)
            out.extend(ord(ch) for ch in chr(v).casefold())
        else:
            out.append(c)
    return out


_FOLD_RANGES = None


WHITESPACE = None


def is_space(eng, c):
    return char_pred(eng, c, "isspace")


def dispatch(eng, bm, args, kw):
    k = bm.kind
    if k == "str":
        return str_method(eng, bm.s, bm.name, args, kw)
    if k == "bytes":
        return bytes_method(eng, bm.s, bm.name, args, kw)
    if k == "int":
        return int_method(eng, bm.s, bm.name, args, kw)
    return float_method(eng, bm.s, bm.name, args, kw)


def _s(eng, x):
    if isinstance(x, LazyStr):
        x = eng.force_str(x)
    return x


def find_sub(eng, cs, ps, start=0):
    """index of first occurrence of ps in cs at or after start, or -1 (forks)"""
    if len(ps) == 0:
        return start
    for i in range(start, len(cs) - len(ps) + 1):
        m = True
        for j in range(len(ps)):
            m = eng.and_(m, eng.cmp("Eq", cs[i + j], ps[j]))
            if m is False:
                break
        if eng.truth(m):
            return i
    return -1


def str_method(eng, s, n, args, kw):
    s = _s(eng, s)
    args = [_s(eng, a) for a in args]
    if isinstance(s, str) and not any(deep_sym(a) for a in args) and not deep_sym(kw):
        return getattr(s, n)(*args, **kw)
    cs = chars(s)
    if n == "startswith":
        p = args[0]
        if isinstance(p, tuple):
            r = False
            for q in p:
                r = eng.or_(r, str_method(eng, s, n, [q], {}))
            return r
        p = chars(p)
        if len(p) > len(cs):
            return False
        r = True
        for a, b in zip(cs, p):
            r = eng.and_(r, eng.cmp("Eq", a, b))
        return r
    if n == "endswith":
        p = args[0]
        if isinstance(p, tuple):
            r = False
            for q in p:
                r = eng.or_(r, str_method(eng, s, n, [q], {}))
            return r
        p = chars(p)
        if len(p) > len(cs):
            return False
        r = True
        for a, b in zip(cs[len(cs) - len(p):], p):
            r = eng.and_(r, eng.cmp("Eq", a, b))
        return r
    if n == "join":
        parts = []
        for i, it in enumerate(list(eng.iterate(args[0]))):
            if i:
                parts.append(s)
            if not isinstance(it, (str, SymStr, LazyStr)):
                raise TypeError("sequence item %d: expected str instance, %s found" % (i, type(it).__name__))
            parts.append(it)
        return eng.concat_str(parts)
    if n in ("lower", "upper"):
        return mkstr([map_char(eng, c, n) for c in cs])
    if n == "casefold":
        return mkstr(casefold_chars(eng, cs))
    if n in ("isalpha", "isdigit", "isnumeric", "isspace", "isupper", "islower", "isalnum", "isdecimal"):
        if not cs:
            return False
        if n in ("isupper", "islower"):
            raise Unsupported("str." + n)
        for c in cs:
            if not char_pred(eng, c, n):
                return False
        return True
    if n in ("strip", "lstrip", "rstrip"):
        if args and args[0] is not None:
            strip_set = chars(args[0])
            pred = lambda c: eng.truth(eng.contains(mkstr(strip_set), mkstr([c])))
        else:
            pred = lambda c: is_space(eng, c)
        lo, hi = 0, len(cs)
        if n in ("strip", "lstrip"):
            while lo < hi and pred(cs[lo]):
                lo += 1
        if n in ("strip", "rstrip"):
            while hi > lo and pred(cs[hi - 1]):
                hi -= 1
        return mkstr(cs[lo:hi])
    if n in ("find", "index"):
        start = args[1] if len(args) > 1 else 0
        if is_sym(start):
            start = eng.concretize_int(start, "find start")
        i = find_sub(eng, cs, chars(args[0]), start)
        if i < 0 and n == "index":
            raise ValueError("substring not found")
        return i
    if n == "rfind":
        ps = chars(args[0])
        for i in range(len(cs) - len(ps), -1, -1):
            m = True
            for j in range(len(ps)):
                m = eng.and_(m, eng.cmp("Eq", cs[i + j], ps[j]))
            if eng.truth(m):
                return i
        return -1
    if n == "count":
        ps = chars(args[0])
        cnt, i = 0, 0
        while True:
            j = find_sub(eng, cs, ps, i)
            if j < 0:
                return cnt
            cnt += 1
            i = j + max(1, len(ps))
            if i > len(cs):
                return cnt
    if n == "replace":
        old, new = chars(args[0]), chars(args[1])
        count = args[2] if len(args) > 2 else -1
        if not old:
            raise Unsupported("replace of empty pattern")
        out, i, done = [], 0, 0
        while i < len(cs):
            if count >= 0 and done >= count:
                break
            j = find_sub(eng, cs, old, i)
            if j < 0:
                break
            out.extend(cs[i:j])
            out.extend(new)
            i = j + len(old)
            done += 1
        out.extend(cs[i:])
        return mkstr(out)
    if n in ("split", "rsplit"):
        sep = args[0] if args else kw.get("sep")
        maxsplit = args[1] if len(args) > 1 else kw.get("maxsplit", -1)
        if n == "rsplit" and maxsplit != -1:
            raise Unsupported("rsplit with maxsplit")
        if sep is None:
            out, cur, nsp = [], [], 0
            i = 0
            while i < len(cs):
                if is_space(eng, cs[i]):
                    if cur:
                        out.append(mkstr(cur))
                        cur = []
                        nsp += 1
                    if maxsplit >= 0 and nsp >= maxsplit and not cur:
                        # remainder (leading whitespace stripped)
                        j = i
                        while j < len(cs) and is_space(eng, cs[j]):
                            j += 1
                        if j < len(cs):
                            out.append(mkstr(cs[j:]))
                        return out
                else:
                    cur.append(cs[i])
                i += 1
            if cur:
                out.append(mkstr(cur))
            return out
        ps = chars(sep)
        if not ps:
            raise ValueError("empty separator")
        out, i, done = [], 0, 0
        while True:
            if maxsplit >= 0 and done >= maxsplit:
                break
            j = find_sub(eng, cs, ps, i)
            if j < 0:
                break
            out.append(mkstr(cs[i:j]))
            i = j + len(ps)
            done += 1
        out.append(mkstr(cs[i:]))
        return out
    if n == "partition":
        ps = chars(args[0])
        j = find_sub(eng, cs, ps, 0)
        if j < 0:
            return (mkstr(cs), "", "")
        return (mkstr(cs[:j]), mkstr(ps), mkstr(cs[j + len(ps):]))
    if n in ("zfill", "rjust", "ljust", "center"):
        w = args[0]
        if is_sym(w):
            w = eng.concretize_int(w, "pad width")
        fill = chars(args[1])[0] if len(args) > 1 else (48 if n == "zfill" else 32)
        if len(cs) >= w:
            return mkstr(cs)
        pad = [fill] * (w - len(cs))
        if n == "zfill":
            if cs and not isinstance(cs[0], int):
                if eng.truth(eng.or_(eng.cmp("Eq", cs[0], 45), eng.cmp("Eq", cs[0], 43))):
                    return mkstr([cs[0]] + pad + cs[1:])
                return mkstr(pad + cs)
            if cs and cs[0] in (45, 43):
                return mkstr([cs[0]] + pad + cs[1:])
            return mkstr(pad + cs)
        if n == "rjust":
            return mkstr(pad + cs)
        if n == "ljust":
            return mkstr(cs + pad)
        raise Unsupported("center")
    if n == "encode":
        for c in cs:
            if not isinstance(c, int):
                if not eng.must(eng.cmp("Lt", c, 128)):
                    raise Unsupported("encode of non-ASCII symbolic char")
        return mkbytes(list(cs))
    if n == "format":
        raise Unsupported("str.format with symbolic arguments")
    if n == "translate":
        table = args[0]
        out = []
        for c in cs:
            if isinstance(c, int):
                r = table.get(c, c)
                if r is None:
                    continue
                out.extend(chars(r) if isinstance(r, str) else [r])
                continue
            hit = False
            for k, r in table.items():
                if eng.truth(eng.cmp("Eq", c, k)):
                    if r is not None:
                        out.extend(chars(r) if isinstance(r, str) else [r])
                    hit = True
                    break
            if not hit:
                out.append(c)
        return mkstr(out)
    if n == "removeprefix":
        if eng.truth(str_method(eng, s, "startswith", [args[0]], {})):
            return mkstr(cs[len(chars(args[0])):])
        return s
    if n == "removesuffix":
        p = chars(args[0])
        if p and eng.truth(str_method(eng, s, "endswith", [args[0]], {})):
            return mkstr(cs[: len(cs) - len(p)])
        return s
    if n == "splitlines":
        raise Unsupported("splitlines")
    if n == "title" or n == "capitalize":
        raise Unsupported("str." + n)
    if n == "__len__":
        return len(cs)
    raise Unsupported("str method " + n)


def bytes_method(eng, s, n, args, kw):
    bs = as_bytes_list(s)
    if n == "join":
        items = list(eng.iterate(args[0]))
        if any(type(it).__name__ == "SymBlob" for it in items):
            from . import blob
            if bs:
                raise Unsupported("blob join with separator")
            return blob.concat(eng, items)
        out = []
        for i, it in enumerate(list(eng.iterate(args[0]))):
            if i:
                out.extend(bs)
            out.extend(as_bytes_list(it))
        return mkbytes(out, isinstance(s, bytearray) or getattr(s, "mutable", False))
    if n == "startswith":
        p = as_bytes_list(args[0])
        if len(p) > len(bs):
            return False
        r = True
        for a, b in zip(bs, p):
            r = eng.and_(r, eng.cmp("Eq", a, b))
        return r
    if n == "decode":
        for b in bs:
            if is_sym(b) and not eng.must(eng.cmp("Lt", b, 128)):
                raise Unsupported("decode of non-ASCII symbolic bytes")
        return mkstr(list(bs))
    if n == "hex":
        raise Unsupported("bytes.hex symbolic")
    if n == "extend":
        if not getattr(s, "mutable", False):
            raise AttributeError("'bytes' object has no attribute 'extend'")
        s.bs.extend(as_bytes_list(args[0]))
        return None
    if n == "append":
        s.bs.append(args[0])
        return None
    if n == "count":
        c = 0
        for b in bs:
            if eng.truth(eng.cmp("Eq", b, args[0] if not isinstance(args[0], (bytes, bytearray)) else args[0][0])):
                c += 1
        return c
    raise Unsupported("bytes method " + n)


def int_method(eng, v, n, args, kw):
    if n == "bit_length":
        a = eng.neg(v) if eng.truth(eng.cmp("Lt", v, 0)) else v
        k = 0
        while eng.truth(eng.cmp("GtE", a, 2 ** k)):
            k += 1
            if k > 600:
                raise Unsupported("bit_length > 600")
        return k
    if n == "to_bytes":
        length = args[0] if args else kw.get("length", 1)
        order = args[1] if len(args) > 1 else kw.get("byteorder", "big")
        signed = kw.get("signed", False)
        if signed:
            raise Unsupported("to_bytes signed")
        if eng.truth(eng.or_(eng.cmp("Lt", v, 0), eng.cmp("GtE", v, 256 ** length))):
            raise OverflowError("int too big to convert")
        out = []
        rest = v
        for i in range(length):
            out.append(eng.op("Mod", rest, 256) if i < length - 1 else rest)
            if i < length - 1:
                rest = eng.op("FloorDiv", rest, 256)
        if order == "big":
            out.reverse()
        return mkbytes(out)
    if n == "is_integer":
        return True
    if n in ("real", "numerator"):
        return v
    raise Unsupported("int method " + n)


def float_method(eng, v, n, args, kw):
    if n == "is_integer":
        if v.ival is not None:
            return True
        if v.dec is not None and v.noise is not None:
            if v.dec[2] >= len(v.dec[1]) - 1:
                return mkbool(v.noise.t == 0)       # the decimal is an integer: the double is one iff it is not off by some ulp
            return False
        if v.dec is not None:
            # shortest decimal digits d1..dn (dn != 0) at exponent e10: an integer iff no digit is fractional
            # (such integers are below 10^16 < 2^53.2 ... exact doubles for n <= 15)
            return v.dec[2] >= len(v.dec[1]) - 1
        if v.t is None:
            x = eng.real_of(v)
            return mkbool(x == z3.ToReal(eng.real_floor(x)))
        t = eng.to_fp(v)
        return mkbool(z3.And(z3.Not(z3.fpIsNaN(t)), z3.Not(z3.fpIsInf(t)), z3.fpEQ(z3.fpRoundToIntegral(z3.RTZ(), t), t)))
    raise Unsupported("float method " + n)
