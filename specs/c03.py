"""C03 - any edit history leaves each table equal to a plain grid: one inductive step from an arbitrary valid state."""
from numbers_parser.constants import MAX_COL_COUNT, MAX_ROW_COUNT

from pysym.api import BoolDom, Cases, Harness, IntDom, assume, cover
from specs.common import check_invariant, grid_values, make_table


def plain(R, C):
    return [["v%d,%d" % (r, c) for c in range(C)] for r in range(R)]


def h03_add_row(R, C, count, start, at_end, with_default):
    t = make_table(R, C)
    g = plain(R, C)
    a_start = None if at_end else start
    default = "d" if with_default else None
    try:
        t.add_row(count, a_start, default)
    except IndexError:
        assert not at_end and (start < 0 or start >= R)
        assert grid_values(t) == g and check_invariant(t)
        return
    assert at_end or 0 <= start < R
    s = R if at_end else start
    g[s:s] = [[default] * C for _ in range(count)]
    assert t.num_rows == R + count and t.num_cols == C
    assert grid_values(t) == g
    assert check_invariant(t)


def h03_add_column(R, C, count, start, at_end, with_default):
    t = make_table(R, C)
    g = plain(R, C)
    a_start = None if at_end else start
    default = "d" if with_default else None
    try:
        t.add_column(count, a_start, default)
    except IndexError:
        assert not at_end and (start < 0 or start >= C)
        assert grid_values(t) == g and check_invariant(t)
        return
    assert at_end or 0 <= start < C
    s = C if at_end else start
    for row in g:
        row[s:s] = [default] * count
    assert t.num_cols == C + count and t.num_rows == R
    assert grid_values(t) == g
    assert check_invariant(t)


def h03_delete_row(R, C, count, start, at_end):
    t = make_table(R, C)
    g = plain(R, C)
    a_start = None if at_end else start
    # documented precondition: the rows to delete exist
    assume(count <= R if at_end else (start < 0 or start >= R or start + count <= R))
    try:
        t.delete_row(count, a_start)
    except IndexError:
        assert not at_end and (start < 0 or start >= R)
        assert grid_values(t) == g and check_invariant(t)
        return
    assert at_end or 0 <= start < R
    if at_end:
        del g[R - count:]
    else:
        del g[start:start + count]
    assert t.num_rows == R - count and t.num_cols == C
    assert grid_values(t) == g
    assert check_invariant(t)


def h03_delete_column(R, C, count, start, at_end):
    t = make_table(R, C)
    g = plain(R, C)
    a_start = None if at_end else start
    assume(count <= C if at_end else (start < 0 or start >= C or start + count <= C))
    try:
        t.delete_column(count, a_start)
    except IndexError:
        assert not at_end and (start < 0 or start >= C)
        assert grid_values(t) == g and check_invariant(t)
        return
    assert at_end or 0 <= start < C
    for row in g:
        if at_end:
            del row[C - count:]
        else:
            del row[start:start + count]
    assert t.num_cols == C - count and t.num_rows == R
    assert grid_values(t) == g
    assert check_invariant(t)


def h03_write(R, C, row, col):
    t = make_table(R, C)
    g = plain(R, C)
    assume(row <= R + 1 or row >= MAX_ROW_COUNT)
    assume(col <= C + 1 or col >= MAX_COL_COUNT)
    try:
        t.write(row, col, "new")
    except IndexError:
        assert row < 0 or col < 0 or row >= MAX_ROW_COUNT or col >= MAX_COL_COUNT
        assert grid_values(t) == g and check_invariant(t)
        return
    assert row >= 0 and col >= 0
    nr = R if row < R else row + 1
    nc = C if col < C else col + 1
    for r in g:
        r.extend([None] * (nc - C))
    for _ in range(nr - R):
        g.append([None] * nc)
    g[row][col] = "new"
    assert grid_values(t) == g
    assert check_invariant(t)


def SH(tier):
    return dict(R=Cases([1, 2, 3] if tier == "quick" else [1, 2, 3, 4]), C=Cases([1, 2] if tier == "quick" else [1, 2, 3]))


def CNT(tier):
    return IntDom(1, 3 if tier == "quick" else 4)
OUT = ["save/reopen and isolation between documents (object store, protobuf, zip)", "add_table/add_sheet cloning",
       "shapes beyond 3x2 and counts beyond 3 (loops over cells are concrete)"]
HARNESSES = [
    Harness("H03-add_row", h03_add_row, lambda tier: dict(SH(tier), count=CNT(tier), start=IntDom(), at_end=BoolDom(), with_default=BoolDom()),
            bounds="start: every Python int or None; count 1..3 (quick) / 1..4 (thorough); default absent/present; shapes {1,2,3} x {1,2} (quick) / {1..4} x {1,2,3} (thorough)", outside=OUT),
    Harness("H03-add_column", h03_add_column, lambda tier: dict(SH(tier), count=CNT(tier), start=IntDom(), at_end=BoolDom(), with_default=BoolDom()),
            bounds="start: every Python int or None; count 1..3; default absent/present"),
    Harness("H03-delete_row", h03_delete_row, lambda tier: dict(SH(tier), count=CNT(tier), start=IntDom(), at_end=BoolDom()),
            bounds="start: every Python int or None; count 1..3 with the rows present (documented precondition)"),
    Harness("H03-delete_column", h03_delete_column, lambda tier: dict(SH(tier), count=CNT(tier), start=IntDom(), at_end=BoolDom()),
            bounds="start: every Python int or None; count 1..3 with the columns present"),
    Harness("H03-write", h03_write, lambda tier: dict(SH(tier), row=IntDom(), col=IntDom()),
            bounds="position: every Python int pair that is negative, beyond the limits, or grows the table by <= 2"),
]
PROPERTY = "C03"
