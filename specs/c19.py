"""C19 - sheet and table collections: lookup by index / name, membership."""
from numbers_parser.containers import ItemsList

from pysym.api import BoolDom, Cases, Harness, IntDom, StrDom, assume


class Item:
    def __init__(self, model, name):
        self.name = name


def make_list(names):
    return ItemsList(None, names, Item)


def h19a_index(key, n):
    """lookup by any integer index agrees with iteration order; IndexError outside [-n, n)"""
    il = make_list(["a", "b", "c", "d", "e", "f", "g", "h"][:n])
    items = list(il._items)
    try:
        r = il[key]
    except IndexError:
        assert key >= n or key < -n
        return
    assert -n <= key < n
    if key >= 0:
        assert r is items[key]
    else:
        assert r is items[n + key]
    assert len(il) == n


def h19b_name(n0, n1, n2, q):
    """lookup by name returns the first item with exactly that name; KeyError if none; membership ignores case"""
    names = [n0, n1, n2]
    il = make_list(names)
    try:
        r = il[q]
    except KeyError:
        assert q != n0 and q != n1 and q != n2
        found = False
    else:
        found = True
        assert r.name == q
        if r is il._items[1]:
            assert n0 != q
        if r is il._items[2]:
            assert n0 != q and n1 != q
    inside = q in il
    if found:
        assert inside
    ql = q.lower()
    assert inside == (ql == n0.lower() or ql == n1.lower() or ql == n2.lower())


# ------------------------------------------------------------------------------------------------ H19c
class NoMerge:
    def is_merge_reference(self, rc):
        return False

    def get(self, rc):
        return False


class DocModel:
    """names and ids of sheets/tables; tables have no cells (0 x 0), so only the collection logic runs"""

    def __init__(self, sheets):
        self.sheets = {}         # sheet id -> [name, [table ids]]
        self.tables = {}         # table id -> name
        self.next_id = 100
        for sname, tnames in sheets:
            sid = self._new()
            tids = []
            for tn in tnames:
                tid = self._new()
                self.tables[tid] = tn
                tids.append(tid)
            self.sheets[sid] = [sname, tids]

    def _new(self):
        self.next_id += 1
        return self.next_id

    def sheet_ids(self):
        return list(self.sheets)

    def table_ids(self, sheet_id=None):
        return list(self.sheets[sheet_id][1])

    def sheet_name(self, sheet_id, value=None):
        if value is None:
            return self.sheets[sheet_id][0]
        self.sheets[sheet_id][0] = value
        return None

    def table_name(self, table_id, value=None):
        if value is None:
            return self.tables[table_id]
        self.tables[table_id] = value
        return None

    def add_sheet(self, name):
        sid = self._new()
        self.sheets[sid] = [name, []]
        return sid

    def add_table(self, sheet_id, table_name, from_table_id, x, y, num_rows, num_cols, num_header_rows=1, num_header_cols=1):
        tid = self._new()
        self.tables[tid] = table_name
        self.sheets[sheet_id][1].append(tid)
        return tid

    def number_of_rows(self, table_id, n=None):
        return 0

    def number_of_columns(self, table_id, n=None):
        return 0

    def set_table_data(self, table_id, data):
        pass

    def merge_cells(self, table_id):
        return NoMerge()


def tname(upper, c):
    return ("TABLE " if upper else "Table ") + c


def unique_ignoring_case(names):
    for i in range(len(names)):
        for j in range(i):
            if names[i].lower() == names[j].lower():
                return False
    return True


def h19c_add_table(c1, c2, u2, rename, c3, u3, explicit, c4, u4, pre=0):
    """add_table after an optional rename: automatic names are fresh, an explicit duplicate (ignoring case) is refused
    with IndexError and changes nothing, otherwise exactly one table with that name is appended last"""
    from numbers_parser.document import Sheet
    n1 = tname(False, c1)
    n2 = tname(u2, c2)
    assume(n1.lower() != n2.lower())
    model = DocModel([("Sheet 1", [n1, n2])])
    sid = model.sheet_ids()[0]
    sheet = Sheet(model, sid)
    # an earlier step of the history: nothing, a membership test, or an earlier (automatic-name) add
    if pre == 1:
        assert n1 in sheet.tables
    elif pre == 2:
        sheet.add_table()
    if rename:
        new = tname(u3, c3)
        for k in range(1, len(sheet.tables)):
            assume(new.lower() != sheet.tables[k].name.lower())
        sheet.tables[0].name = new
    before = [t.name for t in sheet.tables]
    nb = len(before)
    assert nb == (3 if pre == 2 else 2) and unique_ignoring_case(before)
    want = tname(u4, c4) if explicit else None
    try:
        t = sheet.add_table(want)
    except IndexError:
        assert explicit
        dup = False
        for b in before:
            if b.lower() == want.lower():
                dup = True
        assert dup
        assert [x.name for x in sheet.tables] == before and len(model.sheets[sid][1]) == nb
        return
    after = [x.name for x in sheet.tables]
    assert len(after) == nb + 1 and after[:nb] == before
    assert sheet.tables[-1] is t and sheet.tables[nb] is t
    if explicit:
        assert t.name == want
    assert unique_ignoring_case(after)
    assert sheet.tables[t.name] is t
    assert t.name in sheet.tables


def h19c_add_sheet(c1, rename, c3, u3, explicit, c4, u4, pre=0):
    from numbers_parser.document import Document
    s1 = "Sheet " + c1
    model = DocModel([(s1, ["Table 1"])])
    doc = object.__new__(Document)
    doc._model = model
    doc._sheets = ItemsList(model, model.sheet_ids(), __import__("numbers_parser.document", fromlist=["Sheet"]).Sheet)
    if pre == 1:
        assert s1 in doc.sheets
    elif pre == 2:
        doc.add_sheet()
    if rename:
        new = ("SHEET " if u3 else "Sheet ") + c3
        for k in range(1, len(doc.sheets)):
            assume(new.lower() != doc.sheets[k].name.lower())
        doc.sheets[0].name = new
    before = [x.name for x in doc.sheets]
    nb = len(before)
    assert nb == (2 if pre == 2 else 1) and unique_ignoring_case(before)
    want = (("SHEET " if u4 else "Sheet ") + c4) if explicit else None
    try:
        doc.add_sheet(want)
    except IndexError:
        assert explicit
        dup = False
        for b in before:
            if b.lower() == want.lower():
                dup = True
        assert dup
        assert [x.name for x in doc.sheets] == before
        return
    after = [x.name for x in doc.sheets]
    assert len(after) == nb + 1 and after[:nb] == before
    if explicit:
        assert after[nb] == want
    assert unique_ignoring_case(after)
    assert doc.sheets[after[nb]] is doc.sheets[nb]


# a few non-ASCII letters whose lower / upper / case-folded forms differ from each other: ß ſ Σ ς
SPECIAL = [(0xDF, 0xDF), (0x17F, 0x17F), (0x3A3, 0x3A3), (0x3C2, 0x3C2)]
DIGITISH = [(0x30, 0x39), (0x41, 0x5A), (0x61, 0x7A)]
DIGITISH_W = DIGITISH + SPECIAL          # for the name that exists first and the name that is added
ASCII2 = [(0x20, 0x7E)]
ASCII2_W = ASCII2 + SPECIAL

HARNESSES = [
    Harness("H19a", h19a_index, lambda tier: dict(key=IntDom(), n=Cases([0, 1, 2, 3, 4] if tier == "quick" else [0, 1, 2, 3, 4, 5, 6, 7, 8])),
            bounds="key: every Python int (unbounded Int); n = 0..4 items (quick) / 0..8 (thorough)",
            outside=["names and order after save/reopen (protobuf/zip I/O)"]),
    Harness("H19b", h19b_name,
            lambda tier: dict(n0=StrDom(1 if tier == "quick" else 2, ASCII2_W), n1=StrDom(1 if tier == "quick" else 2, ASCII2),
                              n2=StrDom(1, ASCII2), q=StrDom(1 if tier == "quick" else 2, ASCII2_W)),
            bounds="3 items; names and query of 1 (quick) / 2 (thorough) characters (printable ASCII or one of ß ſ Σ ς), all symbolic",
            outside=["names longer than 2 characters; other non-ASCII letters"]),
]
HARNESSES += [
    Harness("H19c-table", h19c_add_table,
            dict(c1=StrDom(1, DIGITISH), c2=StrDom(1, DIGITISH), u2=BoolDom(), rename=BoolDom(), c3=StrDom(1, DIGITISH), u3=BoolDom(),
                 explicit=BoolDom(), c4=StrDom(1, DIGITISH), u4=BoolDom(), pre=Cases([0, 1, 2])),
            bounds="sheet with 2 tables named 'Table <c>' / 'TABLE <c>' (c any ASCII letter or digit, symbolic); history: "
                   "[nothing | a membership test | an automatic-name add_table], optional rename of the first table, then "
                   "add_table with an automatic or explicit (possibly case-variant duplicate) name",
            stubs=["model stub holding names and ids (tables are 0 x 0, so only the collection logic runs)"],
            outside=["names and order after save/reopen", "more than 2 existing siblings; names of other shapes"]),
    Harness("H19c-sheet", h19c_add_sheet,
            dict(c1=StrDom(1, DIGITISH), rename=BoolDom(), c3=StrDom(1, DIGITISH), u3=BoolDom(), explicit=BoolDom(), c4=StrDom(1, DIGITISH), u4=BoolDom(),
                 pre=Cases([0, 1, 2])),
            bounds="document with one sheet 'Sheet <c>'; history: [nothing | a membership test | an automatic-name add_sheet], "
                   "optional rename of the first sheet, then add_sheet automatic / explicit"),
]
PROPERTY = "C19"
